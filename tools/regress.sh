#!/bin/bash
# replays the recorded histories behind earlier model corrections (regress/*.json): every one must be ACCEPTED on the
# unchanged tree (they are false alarms that were fixed in the acceptor, DESIGN.md section 6)
cd /verif
bad=0
for f in regress/*.json; do
  p=$(python3 -c "import json,sys; print(json.load(open('$f'))['property'])")
  out=$(./check $p --replay $f 2>&1 | tail -1)
  case "$out" in ACCEPTED*) ;; *) echo "$f: $out"; bad=1;; esac
done
[ $bad -eq 0 ] && echo "regress: all $(ls regress/*.json | wc -l) recorded histories accepted"
exit $bad
