#!/usr/bin/env python3
"""tools/mutate_stage2.py [--n N] [--checks C13,C12,...]: re-judge mutants that survived tools/mut_smoke.py with the real quick
checks (against a scratch copy, VF_REPO / VF_CACHE).  Appends to out/mutants_stage2.jsonl."""
import json, os, random, shutil, subprocess, sys, time
ARGS = dict(n=40, checks='C13,C12,C19', seed=1)
for a in sys.argv[1:]:
    k, v = a.lstrip('-').split('=')
    ARGS[k] = type(ARGS[k])(v)
INC = '/repo/include/boost/msm'
muts = [json.loads(l) for l in open('/verif/out/mutants.jsonl')]
surv = [m for m in muts if m['verdict'].startswith('SURVIVED')]
random.Random(ARGS['seed']).shuffle(surv)
done = set()
outp = '/verif/out/mutants_stage2.jsonl'
if os.path.exists(outp):
    for l in open(outp):
        d = json.loads(l); done.add((d['file'], d['line'], d['op']))
root, cache = '/tmp/mutrepo2', '/tmp/mutcache2'
shutil.rmtree(root, ignore_errors=True); os.makedirs(root)
subprocess.run('cp -r /repo/include %s/include' % root, shell=True, check=True)
evbak = '/tmp/evbak_stage2'
shutil.rmtree(evbak, ignore_errors=True); shutil.copytree('/verif/evidence', evbak)
try:
    for m in surv[:ARGS['n']]:
        if (m['file'], m['line'], m['op']) in done:
            continue
        src = open(os.path.join(INC, m['file'])).read().split('\n')
        assert src[m['line'] - 1].strip()[:160] == m['before'], 'tree changed'
        # re-create the mutated line with the same operator through tools/mutate.py's site list
        sys.path.insert(0, '/verif/tools')
        import importlib.util
        spec = importlib.util.spec_from_file_location('mutate_sites', '/verif/tools/mutate.py')
        # cheap: reuse the recorded 'after' text with the original indentation
        indent = src[m['line'] - 1][:len(src[m['line'] - 1]) - len(src[m['line'] - 1].lstrip())]
        src[m['line'] - 1] = indent + m['after']
        tgt = os.path.join(root, 'include/boost/msm', m['file'])
        open(tgt, 'w').write('\n'.join(src))
        shutil.rmtree(cache, ignore_errors=True)
        env = dict(os.environ, VF_REPO=root, VF_CACHE=cache)
        res = {}
        t = time.time()
        for c in ARGS['checks'].split(','):
            p = subprocess.run(['/verif/check', c, '--tier', 'quick'], stdout=subprocess.PIPE, stderr=subprocess.STDOUT, text=True, env=env, cwd='/verif')
            first = [l for l in p.stdout.split('\n') if l.startswith('  machine=')][:1]
            res[c] = {'exit': p.returncode, 'first': first[0].strip()[:200] if first else ''}
            if p.returncode == 1:
                break
        shutil.copy(os.path.join(INC, m['file']), tgt)
        rec = dict(m, stage2=res, killed_by=[c for c, v in res.items() if v['exit'] == 1], secs2=round(time.time() - t, 1))
        open(outp, 'a').write(json.dumps(rec) + '\n')
        print('%-45s:%-5d %-24s -> %s' % (m['file'], m['line'], m['op'], rec['killed_by'] or 'SURVIVED ' + str({c: v['exit'] for c, v in res.items()})), flush=True)
finally:
    shutil.rmtree('/verif/evidence', ignore_errors=True); shutil.copytree(evbak, '/verif/evidence'); shutil.rmtree(evbak, ignore_errors=True)
    shutil.rmtree(root, ignore_errors=True); shutil.rmtree(cache, ignore_errors=True)
