#!/usr/bin/env python3
"""tools/mutate.py [--n N] [--seed S] [--files substr,...]: automated mutants of the library headers (one small syntactic
change each: lost accumulate, bit test -> equality, && <-> ||, negated condition, dropped member assignment, off-by-one, ...),
each judged by tools/mut_smoke.py on a scratch copy of /repo/include (VF_REPO, VF_CACHE).  /repo is never touched.
Results: out/mutants.jsonl (one line per mutant: file, line, operator, before, after, family, verdict)."""
import json, os, random, re, shutil, subprocess, sys, time

ARGS = dict(n=200, seed=1, files='')
for a in sys.argv[1:]:
    k, v = a.lstrip('-').split('=')
    ARGS[k] = type(ARGS[k])(v)
INC = '/repo/include/boost/msm'
FILES = {
    'back/state_machine.hpp': 'back', 'back/dispatch_table.hpp': 'back', 'back/favor_compile_time.hpp': 'back',
    'back/history_policies.hpp': 'back', 'back/metafunctions.hpp': 'back',
    'back11/state_machine.hpp': 'back11', 'back11/dispatch_table.hpp': 'back11', 'back11/metafunctions.hpp': 'back11',
    'backmp11/detail/state_machine_base.hpp': 'mp11', 'backmp11/detail/transition_table.hpp': 'mp11',
    'backmp11/detail/history_impl.hpp': 'mp11', 'backmp11/detail/favor_runtime_speed.hpp': 'mp11',
    'backmp11/favor_compile_time.hpp': 'mp11', 'backmp11/common_types.hpp': 'mp11', 'backmp11/detail/state_visitor.hpp': 'mp11',
    'backmp11/detail/basic_polymorphic.hpp': 'mp11', 'backmp11/detail/metafunctions.hpp': 'mp11',
}
SKIP = re.compile(r'^\s*(//|#|\*|/\*|typedef|using|template|static_assert|BOOST_MPL_ASSERT|BOOST_STATIC|namespace|friend|struct|class|public:|private:|protected:)')


def sites(rel):
    out = []
    lines = open(os.path.join(INC, rel)).read().split('\n')
    for i, l in enumerate(lines):
        if SKIP.match(l) or 'constexpr' in l and 'if constexpr' not in l:
            continue
        code = l.split('//')[0]
        def add(op, new):
            if new != l:
                out.append((i, op, l, new))
        if '|=' in code:
            add('or-assign->assign', l.replace('|=', '=', 1))
        m = re.search(r'\(([^()]*?)\s&\s([^()&]*?(HANDLED|handled)[^()]*?)\)', code)
        if m:
            add('bit-test->equality', l.replace(m.group(0), '(%s == %s)' % (m.group(1), m.group(2)), 1))
        if re.search(r'\b(if|return|while)\b', code) and 'if constexpr' not in code:
            if '&&' in code:
                add('and->or', l.replace('&&', '||', 1))
            if '||' in code:
                add('or->and', l.replace('||', '&&', 1))
            if re.search(r'\bif\s*\(\s*!', code):
                add('drop-not', re.sub(r'\bif(\s*)\(\s*!', r'if\1(', l, 1))
            elif re.search(r'\bif\s*\(', code):
                add('negate-if', re.sub(r'\bif(\s*)\((.*)\)\s*$', r'if\1(!(\2))', l, 1))
            if '!=' in code:
                add('ne->eq', l.replace('!=', '==', 1))
            elif re.search(r'[^=!<>]==[^=]', code):
                add('eq->ne', re.sub(r'([^=!<>])==([^=])', r'\1!=\2', l, 1))
            m = re.search(r'(\w[\w\.\->\[\]]*)\s<\s(\w[\w\.:]*)', code)
            if m and 'for' in code:
                add('lt->le', l.replace(m.group(0), '%s <= %s' % (m.group(1), m.group(2)), 1))
        if re.match(r'^\s+(\w+->|\w+\.|\*)?m_\w+(\[[^\]]*\])?\s*=\s*[^=].*;\s*$', code) or re.match(r'^\s+[\w\.\->]*m_\w+(\[[^\]]*\])?\s*=\s*[^=].*;\s*$', code):
            add('drop-member-assignment', re.sub(r'\S.*$', ';', l, 1))
        if re.search(r'\btrue\b', code) and re.search(r'(=|return|\()\s*true\b', code):
            add('true->false', re.sub(r'\btrue\b', 'false', l, 1))
        elif re.search(r'(=|return|\()\s*false\b', code):
            add('false->true', re.sub(r'\bfalse\b', 'true', l, 1))
        if re.search(r'[\w\)\]]\s*\+\s*1\b', code) and 'template' not in code:
            add('drop-plus-one', re.sub(r'\s*\+\s*1\b', '', l, 1))
        if re.match(r'^\s+\+\+[\w\.\->\[\]]+;\s*$', code):
            add('drop-increment', re.sub(r'\S.*$', ';', l, 1))
    return lines, out


def main():
    rng = random.Random(ARGS['seed'])
    allsites = []
    for rel, fam in FILES.items():
        if ARGS['files'] and not any(x in rel for x in ARGS['files'].split(',')):
            continue
        lines, ss = sites(rel)
        for s in ss:
            allsites.append((rel, fam) + s)
    rng.shuffle(allsites)
    chosen = allsites[:ARGS['n']]
    print('sites: %d, running %d' % (len(allsites), len(chosen)), flush=True)
    root = '/tmp/mutrepo'
    cache = '/tmp/mutcache'
    shutil.rmtree(root, ignore_errors=True)
    os.makedirs(root)
    subprocess.run('cp -r /repo/include %s/include' % root, shell=True, check=True)
    outp = '/verif/out/mutants.jsonl'
    done = set()
    if os.path.exists(outp):
        for l in open(outp):
            d = json.loads(l)
            done.add((d['file'], d['line'], d['op']))
    for k, (rel, fam, i, op, old, new) in enumerate(chosen):
        if (rel, i + 1, op) in done:
            continue
        tgt = os.path.join(root, 'include/boost/msm', rel)
        src = open(os.path.join(INC, rel)).read().split('\n')
        src[i] = new
        open(tgt, 'w').write('\n'.join(src))
        shutil.rmtree(cache, ignore_errors=True)
        t = time.time()
        env = dict(os.environ, VF_REPO=root, VF_CACHE=cache)
        try:
            p = subprocess.run(['python3', '/verif/tools/mut_smoke.py', fam, '1'], stdout=subprocess.PIPE, stderr=subprocess.PIPE, text=True,
                               env=env, timeout=150)
            verdict = (p.stdout.strip().split('\n') or ['?'])[-1][:400] or ('ERROR ' + p.stderr[-200:])
        except subprocess.TimeoutExpired:
            verdict = 'KILLED timeout'
        shutil.copy(os.path.join(INC, rel), tgt)
        rec = {'file': rel, 'line': i + 1, 'op': op, 'before': old.strip()[:160], 'after': new.strip()[:160], 'family': fam,
               'verdict': verdict, 'secs': round(time.time() - t, 1)}
        open(outp, 'a').write(json.dumps(rec) + '\n')
        print('%3d/%d %-45s:%-5d %-24s %s' % (k + 1, len(chosen), rel, i + 1, op, verdict[:90]), flush=True)
    shutil.rmtree(root, ignore_errors=True)
    shutil.rmtree(cache, ignore_errors=True)


main()
