#!/usr/bin/env python3
"""tools/mut_smoke.py <family: back|back11|mp11> [seed]: fast smoke run of the acceptor + ledger over a fixed machine set for
the configurations of one back-end family, against the tree named by VF_REPO.  Prints KILLED <detail> / SURVIVED / STILLBORN."""
import os, sys, json, collections
sys.path.insert(0, '/verif')
from vf import engine, run, checks, build

fam = sys.argv[1]
seed = int(sys.argv[2]) if len(sys.argv) > 2 else 1
CFGS = {'back': ['b', 'bc'], 'back11': ['b11'], 'mp11': ['mf', 'mc']}[fam]
MACHINES = ['m01', 'm02', 'm03', 'm04', 'm05', 'm06', 'm07', 'm08', 'm10', 'm11', 'm17', 'm20', 'gen:101', 'gen:103']
if fam == 'mp11':
    MACHINES.append('m12')
else:
    MACHINES.append('m13')
WLS = [dict(), dict(effects=0.4, enqueue=0.2), dict(effects=0.15, enqueue=0.1, fail=0.4), dict(restart=0.15), dict(reads=True, effects=0.2)]
hs = []
for m in MACHINES + ['m09']:
    sp = engine.load_spec(m)
    cf = [c for c in CFGS if c in sp.get('configs', build.CONFIGS)]
    if cf:
        hs.append(engine.Harness(m, cf))
# the three non-default active-state-switch policies on two machines (C12 / C19 corner)
for m in ('m01', 'm03'):
    for sw in (1, 2, 3):
        hs.append(engine.Harness(m, CFGS[:1], switch=sw))
errs = engine.build_harnesses(hs)
if errs:
    print('STILLBORN', errs[0][-200:].replace('\n', ' '))
    sys.exit(0)
kills = collections.Counter()
first = None
# static part of C03: documented numbering and get_state_by_id, reported by every harness at start-up
for h in hs:
    hdr = run.run_matrix(h.bins, ['S'])
    for cfg in h.cfgs:
        ids, chk = run.parse_idmap(hdr[cfg][0].header)
        if any(v != 'ok' for v in chk.values()):
            kills[(h.name, cfg, 'header', 'idchk')] += 1
            first = first or {'machine': h.name, 'cfg': cfg, 'by': 'header', 'rule': 'get_state_by_id / numbering', 'tags': ['C03']}
for h in hs:
    for wi, kw in enumerate(WLS):
        if h.switch and kw.get('restart'):
            continue        # reads inside the root's own on_entry at a restart show the previous run's ids in backmp11 (not judged)
        scripts = checks.scripts_for(h, seed + wi, 40, dict(kw, reads=True) if h.switch else kw)
        res = run.run_matrix(h.bins, scripts)
        v = engine.accept_all(h, res)
        for cfg in h.cfgs:
            for i, x in enumerate(v[cfg]):
                bad = None
                if not x['ok'] and 'HARNESS' not in x['tags']:
                    bad = ('acceptor', x['rule'], sorted(x['tags']))
                elif not x['ledger']['ok'] and 'HARNESS' not in x['ledger'].get('tags', []):
                    bad = ('ledger', x['ledger']['rule'], sorted(x['ledger']['tags']))
                if bad:
                    kills[(h.name, cfg, bad[0], bad[1])] += 1
                    if first is None:
                        first = {'machine': h.name, 'cfg': cfg, 'by': bad[0], 'rule': bad[1], 'tags': bad[2]}
if kills:
    print('KILLED', sum(kills.values()), json.dumps(first))
else:
    print('SURVIVED')
