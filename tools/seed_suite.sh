#!/bin/bash
# tools/seed_suite.sh <worktree>: confirm that the repository's own suite builds and passes with the seeded change.
# The worktree must contain exactly the change of <worktree>/_seed/patch.diff; the suite is (re)built there.
WT=$1
B=$WT/_build
J=${2:-16}
cd "$WT" || exit 2
git diff -- include > /tmp/seed_suite_cur.diff
if ! diff -q <(grep -v '^index ' /tmp/seed_suite_cur.diff) <(grep -v '^index ' _seed/patch.diff) >/dev/null; then
  echo "worktree diff differs from _seed/patch.diff"; exit 2
fi
if [ ! -f "$B/build.ninja" ]; then
  cmake -G Ninja -S "$WT" -B "$B" -DCMAKE_BUILD_TYPE=RelWithDebInfo -DBUILD_TESTING=ON -DCMAKE_CXX_FLAGS="-Wno-error" > "$WT/_conf.log" 2>&1 || { echo "configure failed"; exit 2; }
fi
cmake --build "$B" -j"$J" --target tests -- -k0 > "$WT/_verif_build.log" 2>&1
brc=$?
P=0; F=0
for t in boost_msm_tests boost_msm_euml_tests boost_msm_cxx17_tests boost_msm_cxx20_tests; do
  if [ -x "$B/test/$t" ]; then
    out=$("$B/test/$t" --report_level=detailed --log_level=nothing 2>&1)
    p=$(echo "$out" | grep -cE 'Test case ".*" has passed')
    f=$(echo "$out" | grep -cE 'Test case ".*" has (failed|been aborted)')
    P=$((P+p)); F=$((F+f))
  else
    echo "missing $t"; brc=1
  fi
done
echo "seed_suite $WT passed=$P failed=$F build_rc=$brc"
[ $brc -eq 0 ] && [ $F -eq 0 ] && [ $P -eq 237 ]
