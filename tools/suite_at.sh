#!/bin/bash
# tools/suite_at.sh <source tree> [jobs]: build and run the repository's own suite from another checkout
# (a scratch worktree), so that /repo stays free for the checks meanwhile. Prints "suite_at <dir> passed=N failed=M".
S=$1; B=$S/_build; J=${2:-16}
if [ ! -f "$B/build.ninja" ]; then
  cmake -G Ninja -S "$S" -B "$B" -DCMAKE_BUILD_TYPE=RelWithDebInfo -DBUILD_TESTING=ON -DCMAKE_CXX_FLAGS="-Wno-error" > "$S/_conf.log" 2>&1 || { echo "configure failed"; exit 2; }
fi
cmake --build "$B" -j"$J" --target tests -- -k0 > "$S/_verif_build.log" 2>&1
brc=$?
P=0; F=0
for t in boost_msm_tests boost_msm_euml_tests boost_msm_cxx17_tests boost_msm_cxx20_tests; do
  if [ -x "$B/test/$t" ]; then
    out=$("$B/test/$t" --report_level=detailed --log_level=nothing 2>&1)
    p=$(echo "$out" | grep -cE 'Test case ".*" has passed')
    f=$(echo "$out" | grep -cE 'Test case ".*" has (failed|been aborted)')
    P=$((P+p)); F=$((F+f))
  else echo "missing $t"; brc=1; fi
done
echo "suite_at $S $(git -C $S rev-parse --short HEAD) passed=$P failed=$F build_rc=$brc"
[ $brc -eq 0 ] && [ $F -eq 0 ] && [ $P -eq 237 ]
