#!/bin/bash
# tools/try_seed.sh <patch.diff> [check ids...]  : apply a seeded change to /repo, run the given checks (default: all), undo.
set -u
P=$(readlink -f "$1"); shift
IDS=${@:-C01 C02 C03 C04 C05 C06 C07 C08 C09 C10 C11 C12 C13 C14 C15 C16 C17 C18 C19 C20}
cd /repo || exit 2
git diff --quiet || { echo "/repo has uncommitted changes"; exit 2; }
git apply "$P" || { echo "patch does not apply"; exit 2; }
trap 'git -C /repo checkout -- . ' EXIT
cd /verif
for id in $IDS; do
  out=$(./check $id --tier quick 2>&1); rc=$?
  nviol=$(echo "$out" | grep -c '^VIOLATION')
  echo "== $id rc=$rc violations_listed=$nviol :: $(echo "$out" | tail -1 | cut -c1-160)"
  echo "$out" | grep -A1 '^VIOLATION' | head -4 | cut -c1-260
done
