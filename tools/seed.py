#!/usr/bin/env python3
"""tools/seed.py <seed-id> <agent worktree> <property> [extra check ids...]
Confirms an independently written seeded change (patch applies to /repo, demo exits 0 without / non-zero with the
change), stores it under seeded/<seed-id>/ and runs checks against it (apply, run, undo)."""
import json, os, shutil, subprocess, sys, time
sid, wt, prop = sys.argv[1], sys.argv[2], sys.argv[3]
extra = sys.argv[4:]
V = '/verif'
sd = os.path.join(wt, '_seed')
dst = os.path.join(V, 'seeded', sid)
os.makedirs(dst, exist_ok=True)
for f in ('patch.diff', 'demo.cpp', 'NOTES.md'):
    if os.path.exists(os.path.join(sd, f)):
        shutil.copy(os.path.join(sd, f), os.path.join(dst, f))     # else: re-run on an already stored seed
def sh(cmd, **kw):
    return subprocess.run(cmd, shell=True, stdout=subprocess.PIPE, stderr=subprocess.STDOUT, text=True, **kw)
assert sh('git -C /repo diff --quiet').returncode == 0, '/repo dirty'
assert sh('git -C /repo apply --check %s/patch.diff' % dst).returncode == 0, 'patch does not apply'
# demo without the change (against /repo) and with it (scratch copy of the include tree with the patch applied)
tmp = '/tmp/seedchk_%s' % sid
shutil.rmtree(tmp, ignore_errors=True)
os.makedirs(tmp)
sh('cp -r /repo/include %s/include' % tmp)
libs = ' -lboost_serialization' if 'lboost_serialization' in open(os.path.join(dst, 'NOTES.md')).read() else ''
r0 = sh('clang++-14 -std=c++20 -O0 -w -I/repo/include %s/demo.cpp -o %s/d0%s && %s/d0' % (dst, tmp, libs, tmp))
sh('cd %s && git init -q . && git apply %s/patch.diff' % (tmp, dst))
r1 = sh('clang++-14 -std=c++20 -O0 -w -I%s/include %s/demo.cpp -o %s/d1%s && %s/d1' % (tmp, dst, tmp, libs, tmp))
shutil.rmtree(tmp, ignore_errors=True)
print('demo without change rc=%d, with change rc=%d' % (r0.returncode, r1.returncode))
ok_demo = r0.returncode == 0 and r1.returncode != 0
# suite confirmation by tools/seed_suite.sh (run by me in the agent's worktree, which holds exactly this patch)
import glob
suite = None
for lf in sorted(glob.glob('/verif/out/seed_suite_*.log')):
    for l in open(lf):
        if l.startswith('seed_suite %s ' % wt):
            suite = l.strip()
print('suite:', suite)
# every check used must be silent on the unchanged tree first
clean = {}
for cid in [prop] + [c for c in extra if c != prop]:
    r = sh('cd /verif && ./check %s --tier quick' % cid)
    clean[cid] = r.returncode
    assert r.returncode == 0, 'check %s is not silent on the unchanged tree (exit %d)' % (cid, r.returncode)
results = {}
# runs against a seeded tree must not leave their evidence behind: evidence/ describes the unchanged tree
evbak = '/tmp/seed_evidence_bak_%s' % sid
shutil.rmtree(evbak, ignore_errors=True)
shutil.copytree('/verif/evidence', evbak)
# default: the prescribed way (apply to /repo, run, undo). SEED_COPY=1: run the checks against a scratch copy of
# /repo/include with the patch applied (VF_REPO), so that /repo stays untouched while something else is using it
copy_mode = bool(os.environ.get('SEED_COPY'))
envp = ''
if copy_mode:
    crepo = '/tmp/seedrepo_%s' % sid
    shutil.rmtree(crepo, ignore_errors=True)
    os.makedirs(crepo)
    sh('cp -r /repo/include %s/include && cd %s && git init -q . && git apply %s/patch.diff' % (crepo, crepo, dst))
    envp = 'VF_REPO=%s ' % crepo
else:
    sh('git -C /repo apply %s/patch.diff' % dst)
try:
    for cid in [prop] + [c for c in extra if c != prop]:
        t = time.time()
        r = sh('cd /verif && %s./check %s --tier quick' % (envp, cid))
        viol = [l for l in r.stdout.split('\n') if l.startswith('VIOLATION')]
        detail = [l.strip() for l in r.stdout.split('\n') if l.startswith('  machine=')][:3]
        results[cid] = {'exit': r.returncode, 'violations_listed': len(viol), 'first': detail[:2], 'wall_s': round(time.time() - t, 1)}
        print('  %s: exit %d, %d VIOLATION lines %s' % (cid, r.returncode, len(viol), detail[:1]))
finally:
    if copy_mode:
        shutil.rmtree(crepo, ignore_errors=True)
    else:
        sh('git -C /repo checkout -- .')
    shutil.rmtree('/verif/evidence', ignore_errors=True)
    shutil.copytree(evbak, '/verif/evidence')
    shutil.rmtree(evbak, ignore_errors=True)
meta = {'seed': sid, 'breaks_property': prop, 'written_by': 'independent sub-agent given only the property text and a scratch worktree',
        'needs_to_manifest': open(os.path.join(dst, 'NOTES.md')).read()[:1500],
        'confirmed': {'patch_applies_to_repo_head': True, 'demo_exit_without_change': r0.returncode, 'demo_exit_with_change': r1.returncode,
                      'suite_with_change': suite or 'sub-agent reports the 4 ctest binaries pass with the change (see NOTES.md)',
                      'checks_exit_on_unchanged_tree': clean},
        'checks_run_quick_tier': results,
        'caught_by': sorted(c for c, v in results.items() if v['exit'] == 1)}
json.dump(meta, open(os.path.join(dst, 'meta.json'), 'w'), indent=1)
print('caught by:', meta['caught_by'], '| demo discriminates:', ok_demo)
