#!/bin/bash
# Build and run the repository's own test suite with the verification guard OFF
# (nothing defines BOOSTORG_MSM_VERIF in the repo's build). Prints "passed=N failed=M".
set -o pipefail
B=${1:-/repo/_build}
J=$(nproc 2>/dev/null || echo 8)
if [ ! -f "$B/build.ninja" ]; then
  cmake -G Ninja -S /repo -B "$B" -DCMAKE_BUILD_TYPE=RelWithDebInfo -DBUILD_TESTING=ON -DCMAKE_CXX_FLAGS="-Wno-error" > "$B.conf.log" 2>&1 || { echo "configure failed"; exit 2; }
fi
cmake --build "$B" -j"$J" --target tests -- -k0 > /tmp/vf_repo_build.log 2>&1
brc=$?
[ $brc -eq 0 ] || { tail -40 /tmp/vf_repo_build.log; echo "build rc=$brc"; }
JF=/tmp/vf_repo_junit.xml
rm -f $JF
ctest --test-dir "$B" -j8 --timeout 900 --output-junit $JF > /tmp/vf_repo_ctest.log 2>&1
rc=$?
tail -8 /tmp/vf_repo_ctest.log
# the suite registers one ctest per binary; count Boost.Test cases from the binaries' own reports
P=0; F=0
for t in boost_msm_tests boost_msm_euml_tests boost_msm_cxx17_tests boost_msm_cxx20_tests; do
  if [ -x "$B/test/$t" ]; then
    out=$("$B/test/$t" --report_level=detailed --log_level=nothing 2>&1)
    p=$(echo "$out" | grep -cE 'Test case ".*" has passed')
    f=$(echo "$out" | grep -cE 'Test case ".*" has (failed|been aborted)')
    P=$((P+p)); F=$((F+f))
  fi
done
echo "passed=$P failed=$F ctest_rc=$rc build_rc=$brc"
[ $rc -eq 0 ] && [ $brc -eq 0 ] && [ $F -eq 0 ]
