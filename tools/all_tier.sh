#!/bin/bash
# tools/all_tier.sh <tier> <seed...>: run every claimed check in the given tier; one line per check
cd /verif
tier=$1; shift
for s in "$@"; do
  for p in C01 C02 C03 C04 C05 C06 C07 C08 C09 C10 C11 C12 C13 C14 C15 C16 C17 C18 C19 C20; do
    t0=$(date +%s)
    out=$(./check $p --tier $tier --seed $s 2>&1); rc=$?
    t1=$(date +%s)
    echo "tier=$tier seed=$s $p rc=$rc $((t1-t0))s $(echo "$out" | grep -c '^VIOLATION') viol | $(echo "$out" | tail -1 | cut -c1-170)"
    if [ $rc -ne 0 ]; then echo "$out" | grep -A1 '^VIOLATION\|HARNESS' | head -12 | cut -c1-400; fi
  done
done
