#!/usr/bin/env python3
"""Writes MANIFEST.json from the table below (kept in one place so that it stays valid)."""
import json, os, sys
HERE = os.path.dirname(os.path.dirname(os.path.abspath(__file__)))
sys.path.insert(0, HERE)
props = {}
for line in open(os.path.join(HERE, 'properties.jsonl')):
    p = json.loads(line)
    props[p['id']] = p

MODEL_NOTE = ('Trusted base: the reference acceptor vf/model.py (my reading of the property statements), the instrumented '
              'runtime rt/*.hpp, clang++-14. Machine definitions are sampled (18 curated machines plus seeded generated machines from vf/gen_spec.py, 7 back-end configurations), '
              'inputs/guard valuations/nested submissions/failpoints are explored at random from VERIF_SEED. Held on the '
              'executions observed, nothing more.')

CHECKS = {
 'C01': ('exploration', 'model acceptor over callback traces', 'Every observed guard / action record is compared with the candidate order computed from the machine definition (inner level first, state-internal table before table rows, last declared first, stop at the first guard that holds); random guard valuations on machines with 2-4 conflicting rows, 1-3 regions, depth <= 3, all 7 configurations.', '3 C01'),
 'C02': ('exploration', 'model acceptor over callback traces', 'Each taken row is expanded into the exact exit cascade / action list / entry cascade the statement prescribes and compared record by record, then the introspection snapshot must show the target; internal rows, rejected guards and unmatched events must leave no exit/entry record.', '3 C02'),
 'C04': ('exploration', 'occurrence ledger + scheduling monitor', 'Every submission carries a unique occurrence id; scripted callbacks submit 0-3 events (process_event / enqueue_event, to self or root, also during start()); the monitor rejects a dispatch inside a running step, a second dispatch, FIFO inversions, occurrences left in a queue at quiescence and wrong pending counts.', '3 C04'),
 'C05': ('exploration', 'occurrence ledger + scheduling monitor', 'Deferred occurrences (deferred_events lists, guarded Defer rows, backmp11 is_event_deferred predicates, back submachine deferral under each history policy) are tracked by id: not reported, retained while deferred, re-offered before anything submitted after the configuration change, same-type FIFO, exactly once, payload intact, pending counts equal.', '3 C05'),
 'C06': ('exploration', 'model acceptor + return-code predicate', 'Region order and once-per-region through the record order; handled bit / zero code of every top-level call compared with what the model saw taken / consulted; no_transition records expected exactly when the code is zero, once per region with the region\'s state id, on the called machine.', '3 C06'),
 'C07': ('exploration', 'model acceptor over callback traces', 'Inner-first dispatch, bubbling to each enclosing level only when the inner level did not consume, complete innermost-first exit cascades and outer-first entry cascades on depth 2-3 machines; any record from an inactive submachine is a rejection.', '3 C07'),
 'C08': ('exploration', 'per-submachine history monitor inside the acceptor', 'The configuration a submachine is entered with is predicted from policy, entering event type, remembered configuration at the last exit and entry kind (normal / explicit / fork / entry point) and compared with the observed entry records and the snapshot.', '3 C08'),
 'C09': ('exploration', 'model acceptor over callback traces', 'Explicit entry, fork, entry point continuation and exit point forwarding (same occurrence id, converted type, within the same top-level call) are expected record by record; the exit-point event is also sent from outside in every configuration and must then be treated like any unmatched event.', '3 C09'),
 'C10': ('exploration', 'model acceptor + scheduling monitor', 'Completion rows are expected right after the entry of their source state (chains, conflicts, inside submachines, at start()) and before any pending occurrence, with queued / deferred / nested-submitted occurrences pending; no_transition for the completion event is a rejection.', '3 C10'),
 'C11': ('exploration', 'model acceptor (empty expectation while blocked)', 'After a terminate state is entered every later operation must produce no record and an unchanged snapshot; during interruption the same except for the declared end-interrupt events; swallowed occurrences must never show up later; runs continue for up to 80 operations after blocking.', '3 C11'),
 'C12': ('fault_enumeration', 'failpoint injection + model acceptor', 'A countdown failpoint throws from the k-th guard/action/entry/exit callback of a top-level call (k random in 0..10, every call position reachable by the scripts incl. cascades, completion steps, queued and deferred dispatches, submachine levels); exception_caught exactly once with the event, nothing more of the aborted transition, no no_transition, active state per switch policy, continuation accepted by the model (not wedged).', '3 C12'),
 'C03': ('exploration', 'entry/exit ledger + introspection agreement (model-free invariant monitor)', 'The ledger is rebuilt from observed on_entry/on_exit records only (alternation, substates only inside an active submachine, innermost-first stop); at every quiescent point current_state()/get_active_state_ids() of every active level (ids by the documented numbering, computed independently in Python), is_state_active<S> for every S, get_state_by_id identity and the visitors (back accept_sig; backmp11 all four visit modes) must describe exactly the ledger configuration; start()/stop()/restart cycles included.', '3 C03'),
 'C13': ('exploration', 'differential monitor across 7 back-end configurations', 'The same generated machine and the same script are executed under back (runtime speed, compile time, circular queues), back11 and backmp11 (flat_fold, function_pointer_array, favor_compile_time); the normalised traces (every guard/action/entry/exit/no_transition/exception_caught record with arguments and order, active ids after every operation, handled/zero status) must be identical to the backmp11 flat_fold reference.', '3 C13'),
 'C14': ('exploration', 'differential monitor between front-end families + run-time oracle on the PlantUML tokenizer', 'One machine definition is emitted as functor rows (Row/Internal, none, ActionSequence_, And_/Or_/Not_), as basic member-function rows (row, a_row, g_row, _row, irow family, internal<> family), as row2 family rows and - for flat machines - as an eUML transition-table expression (euml_state/euml_event/euml_action terminals, &&, ||, !, comma sequences) and as a PlantUML string with Guard/Action specialisations; traces on the same scripts must be identical (guard expressions with !, &&, ||, parentheses are observed through the sequence of atom evaluations). The tokenizer functions (parse_row, parse_stt<N>, parse_inits<N>, parse_action<N>, count_*) are called at run time under ASan+UBSan on documents generated from the documented line grammar and compared field by field with the intended fields.', '3 C14'),
 'C15': ('exploration', 'differential monitor (copy vs fresh twin) + instance-label invariant', 'A machine is copy-constructed from a const reference, copy-assigned or (backmp11) move-constructed / move-assigned at random quiescent points with 0-3 pending queued/deferred events; the copy\'s snapshot must equal the source\'s, its continuation must equal that of a fresh machine replaying prefix + continuation, no behaviour of the other instance may be invoked while one is driven (every record carries the instance label of its Fsm& argument), the undisturbed original must not change, and moved-from machines are destroyed or assigned to.', '3 C15'),
 'C16': ('exploration', 'differential monitor (loaded archive vs original)', 'back/back11 machines are saved to text and binary archives at random quiescent points with empty queues and loaded into a fresh machine: snapshot (ids at all levels, flags, do_serialize data) must be equal, and original and loaded twin must produce identical normalised traces on identical continuations incl. re-entry of submachines with history.', '3 C16'),
 'C17': ('exploration', 'flag invariant monitor over ledger configurations', 'At every quiescent point is_flag_active<F>() (OR) at every active level and the AND form on levels whose active states are simple are compared with the flags of the ledger configuration for every flag; inside callbacks the OR flags of the Fsm& argument are compared with the configuration the switch policy shows.', '3 C17'),
 'C19': ('exploration', 'in-callback reads checked by the acceptor + cross-policy differential', 'current_state()/get_active_state_ids() read from inside every guard, exit, action and entry callback are compared with the id the configured policy documents for that phase, for the four policies x back, back11, backmp11; traces with the reads removed must be identical across the four policy builds.', '3 C19'),
 'C20': ('exploration', 'AddressSanitizer/UBSan + valgrind memcheck + instance ledger kept by the event classes', 'An event zoo (pad sizes 1-500 bytes straddling backmp11\'s inline buffer, alignments 4-64, trivial / non-trivial copy / nothrow move / throwing move (heap path) / self-referential / destructor-only classes) is driven through submit, defer, dispatch, copy, move, stop and destroy-with-pending histories on back (deque and circular queues), back11 and backmp11 (both policies) under ASan+UBSan; the event classes keep a ledger of live instances (constructed over a live address, destroyed when not live, damaged copy source, live count at the end); basic_polymorphic is additionally exercised directly; memcheck runs on -O0 builds.', '3 C20'),
 'C18': ('exploration', 'model acceptor over callback traces', 'Exact / base-class (1-2 levels) / Kleene rows competing in one state and across a submachine level: candidate set and order by table position, the dynamic type and occurrence id inside the any, payload checksum recomputed in every callback.', '3 C18'),
}

def main():
    from vf import registry
    checks = []
    for pid in sorted(props):
        if pid not in CHECKS or pid not in registry.claimed():
            continue
        cat, tech, text, ref = CHECKS[pid]
        checks.append({
            'property_id': pid,
            'quick_cmd': './check %s --tier quick' % pid,
            'thorough_cmd': './check %s --tier thorough' % pid,
            'evidence_file': 'evidence/%s.json' % pid,
            'replay_cmd_template': './check %s --replay {path}' % pid,
            'engine': 'vf',
            'level_claimed': {'category': cat, 'text': text, 'design_ref': 'DESIGN.md section ' + ref},
            'level_note': NOTES.get(pid, MODEL_NOTE),
            'technique': 'runtime monitoring: ' + tech,
        })
    na = []
    for pid in sorted(props):
        if pid not in registry.claimed():
            na.append({'property_id': pid, 'reason': NA.get(pid, 'no check registered yet in this tree (monitor under construction; see DESIGN.md section 3)')})
    man = {
        'version': 1,
        'setup_cmd': './check setup',
        'hooks': {
            'guard': 'BOOSTORG_MSM_VERIF',
            'enable': 'every harness is compiled with -DBOOSTORG_MSM_VERIF (vf/build.py); no hook code exists in /repo: all observations are made through user callbacks, return values and public introspection',
            'baseline_off_cmd': 'tools/run_repo_tests.sh',
            'source_commits': [],
            'add_only': True,
        },
        'engines': [
            {'name': 'vf', 'path': 'vf/', 'serves_properties': sorted(registry.claimed()),
             'kind_free_text': 'spec -> C++ harness generator, instrumented runtime (rt/), script driver, reference acceptor / ledger / differential monitors in Python, sanitizer and valgrind builds'},
        ],
        'checks': checks,
        'not_applicable': na,
        'notes': 'See DESIGN.md. Exit codes: 0 held on what was observed, 1 VIOLATION, 2 harness failure or inconclusive (coverage floor not met).',
    }
    with open(os.path.join(HERE, 'MANIFEST.json'), 'w') as f:
        json.dump(man, f, indent=1)
    print('wrote MANIFEST.json with %d checks, %d not_applicable' % (len(checks), len(na)))

NOTES = {}
NA = {}
if __name__ == '__main__':
    main()
