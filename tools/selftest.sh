#!/bin/bash
# quick self-test of the machinery itself: every python file compiles, the manifest generator runs, the recorded
# false-alarm histories are still accepted
cd /verif
for f in vf/*.py vf/corpus/*.py tools/*.py check; do python3 -m py_compile "$f" || { echo "BAD $f"; exit 2; }; done
python3 tools/gen_manifest.py > /dev/null || { echo "manifest generation failed"; exit 2; }
tools/regress.sh
