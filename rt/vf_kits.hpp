// Back-end kits: one uniform way for the generated harness to instantiate and
// introspect a machine under every configuration (DESIGN.md 2.1 table).
#ifndef VF_KITS_HPP
#define VF_KITS_HPP

#include <boost/mpl/vector.hpp>
#include <boost/fusion/include/mpl.hpp>
#include <boost/msm/front/state_machine_def.hpp>
#include <boost/msm/front/functor_row.hpp>
#include <boost/msm/front/history_policies.hpp>
#include <boost/msm/active_state_switching_policies.hpp>

#if defined(VF_FAM_BACK)
#include <boost/msm/back/state_machine.hpp>
#include <boost/msm/back/favor_compile_time.hpp>
#include <boost/msm/back/queue_container_circular.hpp>
#elif defined(VF_FAM_BACK11)
#include <boost/msm/back11/state_machine.hpp>
#include <boost/msm/back/queue_container_circular.hpp>
#elif defined(VF_FAM_MP11)
#include <boost/msm/backmp11/state_machine.hpp>
#include <boost/msm/backmp11/favor_compile_time.hpp>
#else
#error "define VF_FAM_BACK, VF_FAM_BACK11 or VF_FAM_MP11"
#endif

// capacity of the circular-buffer queues of configuration bq: "sufficiently large" by default (C13); C20 also drives a
// deliberately small one (-DVF_QCAP=2..3), where boost::circular_buffer overwrites its oldest element when full
#ifndef VF_QCAP
#define VF_QCAP 4096
#endif

namespace vf {

// history descriptors used by the generated front-ends
struct HistNone {};
struct HistAlways {};
template <class... Ev> struct HistShallow {};

template <class H> struct front_hist { typedef boost::msm::front::no_history type; };
template <> struct front_hist<HistAlways> { typedef boost::msm::front::always_shallow_history type; };
template <class... Ev> struct front_hist<HistShallow<Ev...>> { typedef boost::msm::front::shallow_history<Ev...> type; };

#if defined(VF_FAM_BACK) || defined(VF_FAM_BACK11)
namespace bk = boost::msm::back;
#if defined(VF_FAM_BACK)
namespace bsm = boost::msm::back;
#else
namespace bsm = boost::msm::back11;
#endif

template <class H> struct back_hist { typedef bk::NoHistory type; };
template <> struct back_hist<HistAlways> { typedef bk::AlwaysHistory type; };
template <class... Ev> struct back_hist<HistShallow<Ev...>> { typedef bk::ShallowHistory<boost::mpl::vector<Ev...>> type; };

struct Kit {
#if defined(VF_FAM_BACK)
    static const int family = 0;
#else
    static const int family = 1;
#endif
    typedef boost::any any_t;
    template <class FE, class H = HistNone> struct sm {
#if defined(VF_CFG_bc)
        typedef bsm::state_machine<FE, typename back_hist<H>::type, bk::favor_compile_time> type;
#elif defined(VF_CFG_bq)
        typedef bsm::state_machine<FE, typename back_hist<H>::type, bk::queue_container_circular> type;
#elif defined(VF_FAM_BACK11)
        typedef bsm::state_machine<FE, void, typename back_hist<H>::type> type;
#else
        typedef bsm::state_machine<FE, typename back_hist<H>::type> type;
#endif
    };
    template <class SM> static int cur(SM const& m, int r) { return m.current_state()[r]; }
    template <class SM> static long msgq(SM const& m) { return (long)m.get_message_queue_size(); }
    template <class SM> static long defq(SM const& m) { return (long)m.get_deferred_queue().size(); }
    template <class SM> static void drain(SM& m) { m.execute_queued_events(); }
    template <class SM> static void drain1(SM& m) { if (m.get_message_queue_size()) m.execute_single_queued_event(); }
    template <class F, class SM> static bool flag_or(SM const& m) { return m.template is_flag_active<F>(); }
    template <class F, class SM> static bool flag_and(SM const& m) { return m.template is_flag_active<F, typename SM::Flag_AND>(); }
    template <class SM, class S> static int state_id() { return bsm::get_state_id<typename SM::stt, S>::value; }
    template <class SM> static void prepare(SM& m) {
#if defined(VF_CFG_bq)
        m.get_message_queue().set_capacity(VF_QCAP);
#endif
        (void)m;
    }
    template <class SM> static void prepare_defq(SM& m) {
#if defined(VF_CFG_bq)
        m.get_deferred_queue().set_capacity(VF_QCAP);
#endif
        (void)m;
    }
    template <class SM> static void visit(SM& m) { m.visit_current_states(); }
    static bool handled(int rc) { return rc & 1; }
};
#endif

#if defined(VF_FAM_MP11)
namespace mp = boost::msm::backmp11;

struct fpa_policy : mp::favor_runtime_speed {
    using dispatch_strategy = mp::dispatch_strategy::function_pointer_array;
};
template <class CP> struct mp11_cfg : mp::state_machine_config { using compile_policy = CP; };

template <class FE, class Cfg>
class mp11_sm : public mp::state_machine<FE, Cfg, mp11_sm<FE, Cfg>> {
    using Base = mp::state_machine<FE, Cfg, mp11_sm<FE, Cfg>>;
  public:
    using Base::Base;
    const uint16_t* current_state() const { return &this->get_active_state_ids()[0]; }
    size_t pool_size() const {
        // count only live occurrences (processed ones are erased lazily)
        size_t n = 0;
        for (auto const& e : this->get_event_pool().events) if (!(*e).marked_for_deletion()) ++n;
        return n;
    }
    size_t pool_raw_size() const { return this->get_event_pool().events.size(); }
    void clear_pool() { this->get_event_pool().events.clear(); }
};

struct Kit {
    static const int family = 2;
    typedef std::any any_t;
#if defined(VF_CFG_mc)
    typedef mp11_cfg<mp::favor_compile_time> cfg;
#elif defined(VF_CFG_mp)
    typedef mp11_cfg<fpa_policy> cfg;
#else
    typedef mp11_cfg<mp::favor_runtime_speed> cfg;
#endif
    template <class FE, class H = HistNone> struct sm { typedef mp11_sm<FE, cfg> type; };
    template <class SM> static int cur(SM const& m, int r) { return m.current_state()[r]; }
    template <class SM> static long msgq(SM const& m) { return (long)m.pool_size(); }
    template <class SM> static long defq(SM const&) { return -1; }
    template <class SM> static void drain(SM& m) { m.process_event_pool(); }
    template <class SM> static void drain1(SM& m) { m.process_event_pool(1); }
    template <class F, class SM> static bool flag_or(SM const& m) { return m.template is_flag_active<F>(); }
    template <class F, class SM> static bool flag_and(SM const& m) { return m.template is_flag_active<F, mp::flag_and>(); }
    template <class SM, class S> static int state_id() { return (int)SM::template get_state_id<S>(); }
    template <class SM> static void prepare(SM&) {}
    template <class SM> static void prepare_defq(SM&) {}
    static bool handled(int rc) { return rc & 1; }
};
#endif

// active-state-switch policy by index
template <int P> struct switch_policy { typedef boost::msm::active_state_switch_after_entry type; };
template <> struct switch_policy<1> { typedef boost::msm::active_state_switch_after_transition_action type; };
template <> struct switch_policy<2> { typedef boost::msm::active_state_switch_after_exit type; };
template <> struct switch_policy<3> { typedef boost::msm::active_state_switch_before_transition type; };

} // namespace vf
#endif
