// Direct exerciser of backmp11's basic_polymorphic small-buffer type erasure (C20): copy / move /
// assign / self-assign / container churn of inline and heap values of the event zoo, under ASan+UBSan,
// with the instance ledger. Reads "seed nops" from argv, prints what it did and any ledger complaint.
#include "vf_rt.hpp"
#include <boost/msm/backmp11/detail/basic_polymorphic.hpp>
#include <deque>
#include <vector>
#include <random>

namespace bp = boost::msm::backmp11::detail;

struct Base {
    virtual ~Base() {}
    virtual int ident() const = 0;
    virtual bool good() const = 0;
};
template <class Z> struct Holder : Base {
    Z z;
    explicit Holder(int id) : z(id) {}
    int ident() const override { return z.id; }
    bool good() const override { return z.intact(); }
};
typedef bp::basic_polymorphic<Base> Poly;

template <class Z> Poly make(int id) { return Poly::make<Holder<Z>>(id); }

typedef Poly (*maker_t)(int);
static maker_t makers[] = {
    &make<vf::Zoo<1, 4, vf::Z_TRIVIAL>>, &make<vf::Zoo<8, 8, vf::Z_NONTRIVIAL>>, &make<vf::Zoo<16, 8, vf::Z_NOTHROW_MOVE>>,
    &make<vf::Zoo<20, 8, vf::Z_SELFREF>>, &make<vf::Zoo<24, 8, vf::Z_THROWING_MOVE>>, &make<vf::Zoo<28, 8, vf::Z_DTOR_ONLY>>,
    &make<vf::Zoo<32, 8, vf::Z_NONTRIVIAL>>, &make<vf::Zoo<36, 8, vf::Z_SELFREF>>, &make<vf::Zoo<40, 8, vf::Z_NOTHROW_MOVE>>,
    &make<vf::Zoo<8, 16, vf::Z_SELFREF>>, &make<vf::Zoo<64, 32, vf::Z_NONTRIVIAL>>, &make<vf::Zoo<200, 64, vf::Z_DTOR_ONLY>>,
    &make<vf::Zoo<500, 8, vf::Z_NONTRIVIAL>>, &make<vf::Zoo<12, 4, vf::Z_DTOR_ONLY>>,
};
static const int NM = sizeof(makers) / sizeof(makers[0]);

// trivially copyable values (memcpy path of the control block)
struct TBase { int kind; int id; };
template <size_t N> struct THolder : TBase { unsigned char pad[N]; explicit THolder(int i) { kind = (int)N; id = i; for (size_t k = 0; k < N; ++k) pad[k] = (unsigned char)(i + (int)k); }
    bool good() const { for (size_t k = 0; k < N; ++k) if (pad[k] != (unsigned char)(id + (int)k)) return false; return true; } };
typedef bp::basic_polymorphic<TBase> TPoly;
static bool tgood(const TPoly& p) {
    switch (p->kind) {
    case 1: return static_cast<THolder<1>*>(p.get())->good();
    case 40: return static_cast<THolder<40>*>(p.get())->good();
    case 48: return static_cast<THolder<48>*>(p.get())->good();
    case 49: return static_cast<THolder<49>*>(p.get())->good();
    case 300: return static_cast<THolder<300>*>(p.get())->good();
    }
    return false;
}
static long trivial_part(unsigned seed, int nops) {
    std::mt19937 rng(seed * 7 + 1);
    std::deque<TPoly> dq;
    long bad = 0;
    for (int i = 0; i < nops; ++i) {
        int w = (int)(rng() % 6);
        if (w < 2 || dq.empty()) {
            int id = i + 1;
            switch (rng() % 5) {
            case 0: dq.push_back(TPoly::make<THolder<1>>(id)); break;
            case 1: dq.push_back(TPoly::make<THolder<40>>(id)); break;
            case 2: dq.push_front(TPoly::make<THolder<48>>(id)); break;     // sizeof == 56: last inline size
            case 3: dq.push_back(TPoly::make<THolder<49>>(id)); break;      // first heap size
            default: dq.push_back(TPoly::make<THolder<300>>(id)); break;
            }
        } else if (w == 2) { TPoly c(dq[rng() % dq.size()]); if (!tgood(c)) ++bad; dq.push_back(std::move(c)); }
        else if (w == 3) { size_t a = rng() % dq.size(), b = rng() % dq.size(); dq[a] = dq[b]; }
        else if (w == 4) { dq.erase(dq.begin() + (long)(rng() % dq.size())); }
        else { for (auto& p : dq) if (!tgood(p)) ++bad; }
    }
    for (auto& p : dq) if (!tgood(p)) ++bad;
    return bad;
}

int main(int argc, char** argv) {
    unsigned seed = argc > 1 ? (unsigned)atoi(argv[1]) : 1;
    int nops = argc > 2 ? atoi(argv[2]) : 2000;
    std::mt19937 rng(seed);
    long bad = 0, inl = 0, heap = 0, ops = 0;
    {
        std::deque<Poly> dq;
        std::vector<Poly> vec;
        int next = 1;
        for (int i = 0; i < nops; ++i) {
            ++ops;
            int what = (int)(rng() % 12);
            if (what < 3 || dq.empty()) {
                Poly p = makers[rng() % NM](next++);
                (p.is_inline() ? inl : heap)++;
                if (rng() & 1) dq.push_back(std::move(p)); else dq.push_front(p);
            } else if (what == 3) {
                Poly c(dq[rng() % dq.size()]);                 // copy construct
                if (!c->good()) ++bad;
                vec.push_back(std::move(c));                   // move construct (reallocation moves all)
            } else if (what == 4) {
                size_t a = rng() % dq.size(), b = rng() % dq.size();
                dq[a] = dq[b];                                  // copy assign (incl. self assign)
            } else if (what == 5) {
                size_t a = rng() % dq.size(), b = rng() % dq.size();
                if (a != b) dq[a] = std::move(dq[b]);          // move assign: dq[b] stays a valid moved-from value
                dq.erase(dq.begin() + (long)b);
            } else if (what == 6) {
                dq.erase(dq.begin() + (long)(rng() % dq.size()));   // erase in the middle: move assignments
            } else if (what == 7) {
                dq.pop_front();
            } else if (what == 8 && !vec.empty()) {
                size_t a = rng() % vec.size();
                Poly tmp(std::move(vec[a]));                    // moved-from element is destroyed / assigned below
                if (rng() & 1) vec[a] = tmp; else vec.erase(vec.begin() + (long)a);
            } else if (what == 9) {
                Poly empty;                                    // default constructed (void control block)
                Poly e2(empty);
                empty = e2;
                if (!dq.empty()) { empty = dq.front(); e2 = std::move(empty); }
            } else if (what == 10 && !vec.empty()) {
                vec.clear();
            } else {
                for (auto& p : dq) if (!p->good()) ++bad;
                for (auto& p : vec) if (p.get() && !p->good()) ++bad;
            }
        }
        for (auto& p : dq) if (!p->good()) ++bad;
    }
    bad += trivial_part(seed, nops);
    vf::tr().flush();
    printf("POLY ops=%ld inline=%ld heap=%ld bad=%ld live=%zu ctor=%ld dtor=%ld ledger_errors=%ld\n",
           ops, inl, heap, bad, vf::zoo().live.size(), vf::zoo().ctor, vf::zoo().dtor, vf::zoo().errors);
    return (bad || vf::zoo().live.size() || vf::zoo().errors) ? 1 : 0;
}
namespace vf { const SiteInfo& guard_site(int) { static SiteInfo s{"", 0}; return s; } const char* action_site(int) { return ""; } }
