// Generic script driver (DESIGN.md 2.2): reads one script per stdin line, runs it on
// fresh machine instances, prints the observed trace.
#ifndef VF_DRIVER_HPP
#define VF_DRIVER_HPP

#include <iostream>
#include <memory>
#include <map>
#include <csignal>
#include <unistd.h>

namespace vf {

template <class H>
struct Driver {
    typedef typename H::Root Root;
    std::map<char, std::unique_ptr<Root>> inst;
    char cur = 'A';

    Root& at(char t) { return *inst.at(t); }

    void reg(char t) { register_instance(inst[t].get(), sizeof(Root), t); }

    void fresh(char t) {
        unregister_instance(t);
        inst[t].reset();
        inst[t].reset(new Root());
        reg(t);
        H::prepare(*inst[t]);
    }

    void snapshot(char t) {
        std::string o = "SNAP ";
        o += t; o += ' ';
        H::snap(at(t), o);
        H::visit(at(t), o);
        tr().line(o);
    }

    void use(char t) {
        cur = t;
        Root* r = inst.at(t).get();
        st().root_submit = [r](char api, int ev, int id) {
            if (api == 'p') H::process(*r, ev, id); else H::enqueue(*r, ev, id);
        };
    }

    // returns false on malformed op
    bool op(const std::string& tok) {
        State& S = st();
        char c = tok[0];
        std::string a = tok.substr(1);
        char line[256];
        switch (c) {
        case 'M': S.gmask = strtoull(a.c_str(), 0, 16); tr().line("OP " + tok); return true;
        case 'K': S.kseed = strtoull(a.c_str(), 0, 16); return true;
        case 'R': S.reads = (a == "1"); return true;
        case 'F': S.fail_after = atol(a.c_str()); return true;     // armed by the next P/D/d op
        case 'E': {
            auto f = split(a, ':');
            if (f.size() != 7) return false;
            Effect e;
            e.kind = f[0][0]; e.site = f[1]; e.nth = atoi(f[2].c_str());
            e.api = f[3][0]; e.target = f[4][0]; e.ev = atoi(f[5].c_str()); e.id = atoi(f[6].c_str());
            { std::string key(1, e.kind); key += e.site; e.base = S.calls[key]; }
            S.effects.push_back(e);
            return true;
        }
        case 'T': if (inst.count(a[0])) snapshot(a[0]); return true;
        case 'U': use(a[0]); snprintf(line, sizeof line, "USE %c", a[0]); tr().line(line); return true;
        case 'N': fresh(a[0]); return true;
        default: break;
        }
        bool arm = false;
        try {
            switch (c) {
            case 'S':
                snprintf(line, sizeof line, "CALL start %c", cur); tr().line(line);
                at(cur).start();
                tr().line("RET -");
                break;
            case 'X':
                // stop() is outside the quantifier of C04: no scripted submissions while it runs
                S.effects.clear();
                snprintf(line, sizeof line, "CALL stop %c", cur); tr().line(line);
                at(cur).stop();
                tr().line("RET -");
                break;
            case 'P': case 'Q': {
                auto f = split(a, ':');
                int ev = atoi(f[0].c_str()), id = atoi(f[1].c_str());
                snprintf(line, sizeof line, "CALL %s %c E%d:%d", c == 'P' ? "process" : "enqueue", cur, ev, id);
                tr().line(line);
                if (c == 'P') {
                    if (S.fail_after >= 0) { S.fail_armed = true; arm = true; }
                    int rc = H::process(at(cur), ev, id);
                    snprintf(line, sizeof line, "RET %d", rc); tr().line(line);
                } else {
                    H::enqueue(at(cur), ev, id);
                    tr().line("RET -");
                }
                break;
            }
            case 'D': case 'd':
                snprintf(line, sizeof line, "CALL %s %c", c == 'D' ? "drain" : "drain1", cur); tr().line(line);
                if (S.fail_after >= 0) { S.fail_armed = true; arm = true; }
                if (c == 'D') Kit::drain(at(cur)); else Kit::drain1(at(cur));
                tr().line("RET -");
                break;
            case 'C': {   // copy-construct a[1] from const& a[0]
                snprintf(line, sizeof line, "CALL copy %c %c", a[0], a[1]); tr().line(line);
                const Root& src = at(a[0]);
                unregister_instance(a[1]);
                inst[a[1]].reset(new Root(src));
                reg(a[1]);
                tr().line("RET -");
                snapshot(a[0]);
                snapshot(a[1]);
                break;
            }
            case '=': {   // copy-assign a[1] = a[0]
                snprintf(line, sizeof line, "CALL assign %c %c", a[0], a[1]); tr().line(line);
                const Root& src = at(a[0]);
                at(a[1]) = src;
                tr().line("RET -");
                snapshot(a[0]);
                snapshot(a[1]);
                break;
            }
#if defined(VF_SERIALIZE)
            case 'W': {   // save a[1] to a text ('t') or binary ('b') archive and load it into a fresh a[2]
                snprintf(line, sizeof line, "CALL saveload %c %c %c", a[1], a[2], a[0]); tr().line(line);
                std::stringstream ss(std::ios::in | std::ios::out | std::ios::binary);
                {
                    const Root& src = at(a[1]);
                    if (a[0] == 't') { boost::archive::text_oarchive oa(ss); oa << src; }
                    else { boost::archive::binary_oarchive oa(ss); oa << src; }
                }
                fresh(a[2]);
                {
                    if (a[0] == 't') { boost::archive::text_iarchive ia(ss); ia >> at(a[2]); }
                    else { boost::archive::binary_iarchive ia(ss); ia >> at(a[2]); }
                }
                snprintf(line, sizeof line, "RET %zu", ss.str().size()); tr().line(line);
                snapshot(a[1]);
                snapshot(a[2]);
                break;
            }
#endif
#if defined(VF_FAM_MP11)
            case 'V': {   // move-construct a[1] from a[0]
                snprintf(line, sizeof line, "CALL move %c %c", a[0], a[1]); tr().line(line);
                unregister_instance(a[1]);
                inst[a[1]].reset(new Root(std::move(at(a[0]))));
                reg(a[1]);
                tr().line("RET -");
                snapshot(a[1]);
                break;
            }
            case 'v': {   // move-assign a[1] = move(a[0])
                snprintf(line, sizeof line, "CALL moveassign %c %c", a[0], a[1]); tr().line(line);
                at(a[1]) = std::move(at(a[0]));
                tr().line("RET -");
                snapshot(a[1]);
                break;
            }
#endif
            case '~':
                snprintf(line, sizeof line, "CALL destroy %c", a[0]); tr().line(line);
                unregister_instance(a[0]);
                inst.erase(a[0]);
                tr().line("RET -");
                return true;
            default:
                return false;
            }
        } catch (std::exception& e) {
            snprintf(line, sizeof line, "ESC %s", e.what()); tr().line(line);
        } catch (...) {
            tr().line("ESC unknown");
        }
        if (arm) { S.fail_armed = false; S.fail_after = -1; }
        if (inst.count(cur)) snapshot(cur);
        return true;
    }

    void run_script(const std::string& script) {
        st().reset();
        ranges().clear();
        inst.clear();
        fresh('A');
        use('A');
        for (auto& tok : split(script, ' ')) {
            if (tok.empty()) continue;
            if (!op(tok)) { tr().line("BADOP " + tok); break; }
        }
        inst.clear();
        ranges().clear();
        st().root_submit = nullptr;
        {
            // every event object the library stored must be gone once all machines are destroyed (C20)
            char tmp[96];
            snprintf(tmp, sizeof tmp, "LIVE %zu %ld %ld %ld", zoo().live.size(), zoo().ctor, zoo().dtor, zoo().errors);
            tr().line(tmp);
            zoo().live.clear();
            zoo().errors = 0;
        }
    }
};

inline void on_fatal_signal(int sig) {
    // best effort: flush what has been recorded so that the failing script can be diagnosed
    std::string& b = tr().buf;
    if (!b.empty()) { ssize_t r = write(1, b.data(), b.size()); (void)r; }
    char msg[48]; int n = snprintf(msg, sizeof msg, "SIGNAL %d\n", sig);
    ssize_t r = write(1, msg, (size_t)n); (void)r;
    _exit(100 + sig);
}

template <class H>
int run_main(int argc, char** argv) {
    signal(SIGABRT, on_fatal_signal);
    signal(SIGSEGV, on_fatal_signal);
    signal(SIGBUS, on_fatal_signal);
    signal(SIGFPE, on_fatal_signal);
    signal(SIGILL, on_fatal_signal);
    signal(SIGALRM, on_fatal_signal);
    H::register_any();
    {
        std::string o;
        H::idmap(o);
        fputs(o.c_str(), stdout);
        typename H::Root r;
        H::prepare(r);
        std::string c = "IDCHK";
        H::idcheck(r, c);
        puts(c.c_str());
    }
    unsigned alarm_s = 0;
    for (int i = 1; i < argc; ++i) if (!strncmp(argv[i], "--alarm=", 8)) alarm_s = (unsigned)atoi(argv[i] + 8);
    Driver<H> d;
    std::string line;
    long n = 0;
    while (std::getline(std::cin, line)) {
        if (line.empty()) continue;
        printf("BEGIN %ld\n", n);
        fflush(stdout);
        if (alarm_s) alarm(alarm_s);
        d.run_script(line);
        if (alarm_s) alarm(0);
        tr().flush();
        printf("END %ld\n", n);
        fflush(stdout);
        ++n;
    }
    return 0;
}

} // namespace vf
#endif
