// Instrumented runtime shared by every generated harness (see DESIGN.md 2.2).
// Everything observable goes through here: callback records, scripted guard
// values, scripted effects (nested submissions, in-callback reads), failpoints.
#ifndef VF_RT_HPP
#define VF_RT_HPP

#include <cstdio>
#include <cstdlib>
#include <cstring>
#include <cstdint>
#include <string>
#include <vector>
#include <map>
#include <functional>
#include <stdexcept>
#include <typeinfo>
#include <type_traits>
#include <any>
#include <boost/any.hpp>
#include <boost/msm/front/completion_event.hpp>

namespace vf {

// ---------------------------------------------------------------- trace buffer
struct Trace {
    std::string buf;
    long n = 0;
    void line(const std::string& s) { buf += s; buf += '\n'; ++n; }
    void flush() { if (!buf.empty()) { fwrite(buf.data(), 1, buf.size(), stdout); buf.clear(); } fflush(stdout); }
};
inline Trace& tr() { static Trace t; return t; }

// ---------------------------------------------------------------- events
inline uint32_t mix(uint32_t x) { x ^= x >> 16; x *= 0x7feb352dU; x ^= x >> 15; x *= 0x846ca68bU; x ^= x >> 16; return x; }

struct EvBase {
    int id;
    uint32_t p0, p1;
    EvBase() : id(-1), p0(mix(0xFFFFFFFFu)), p1(mix(p0)) {}
    explicit EvBase(int i) : id(i), p0(mix((uint32_t)i)), p1(mix(p0 ^ 0x9e3779b9U)) {}
    bool intact() const { return p0 == mix((uint32_t)id) && p1 == mix(p0 ^ 0x9e3779b9U); }
};

// ---------------------------------------------------------------- event zoo (C20)
// Events of assorted size / alignment / special-member traits; the non-trivial ones keep a
// ledger of live instances so that a missing or doubled destructor call, a constructor over a
// live address or a damaged copy is noticed even where no sanitizer would object.
struct ZooLedger {
    std::map<const void*, int> live;     // address -> id
    long ctor = 0, dtor = 0, errors = 0;
    void err(const char* what, const void* p, int id) {
        ++errors;
        char tmp[128]; snprintf(tmp, sizeof tmp, "LEDGER %s %p %d", what, p, id);
        tr().line(tmp);
    }
    void born(const void* p, int id) {
        ++ctor;
        if (live.count(p)) err("construct-over-live", p, id);
        live[p] = id;
    }
    void died(const void* p, int id) {
        ++dtor;
        auto it = live.find(p);
        if (it == live.end()) { err("destroy-not-live", p, id); return; }
        if (it->second != id) err("destroy-id-mismatch", p, id);
        live.erase(it);
    }
};
inline ZooLedger& zoo() { static ZooLedger z; return z; }

enum { Z_TRIVIAL = 0, Z_NONTRIVIAL = 1, Z_THROWING_MOVE = 2, Z_SELFREF = 3, Z_DTOR_ONLY = 4, Z_NOTHROW_MOVE = 5 };

template <size_t Size, size_t Align> struct alignas(Align) ZooPad : EvBase {
    unsigned char pad[Size];
    ZooPad() : EvBase() { fill(); }
    explicit ZooPad(int i) : EvBase(i) { fill(); }
    void fill() { for (size_t k = 0; k < Size; ++k) pad[k] = (unsigned char)(mix((uint32_t)id + (uint32_t)k * 31U) & 0xff); }
    bool pad_ok() const {
        for (size_t k = 0; k < Size; ++k) if (pad[k] != (unsigned char)(mix((uint32_t)id + (uint32_t)k * 31U) & 0xff)) return false;
        return true;
    }
    bool aligned() const { return (reinterpret_cast<uintptr_t>(this) % Align) == 0; }
};

template <size_t Size, size_t Align, int Trait> struct Zoo;

template <size_t Size, size_t Align> struct Zoo<Size, Align, Z_TRIVIAL> : ZooPad<Size, Align> {
    Zoo() {}
    explicit Zoo(int i) : ZooPad<Size, Align>(i) {}
    bool intact() const { return EvBase::intact() && this->pad_ok() && this->aligned(); }
};
template <size_t Size, size_t Align> struct Zoo<Size, Align, Z_NONTRIVIAL> : ZooPad<Size, Align> {
    Zoo() { zoo().born(this, this->id); }
    explicit Zoo(int i) : ZooPad<Size, Align>(i) { zoo().born(this, this->id); }
    Zoo(const Zoo& o) : ZooPad<Size, Align>(o) { if (!o.intact0()) zoo().err("copy-source-damaged", &o, o.id); zoo().born(this, this->id); }
    Zoo& operator=(const Zoo& o) { ZooPad<Size, Align>::operator=(o); zoo().live[this] = this->id; return *this; }
    ~Zoo() { zoo().died(this, this->id); }
    bool intact0() const { return EvBase::intact() && this->pad_ok(); }
    bool intact() const { return intact0() && this->aligned() && zoo().live.count(this); }
};
template <size_t Size, size_t Align> struct Zoo<Size, Align, Z_NOTHROW_MOVE> : ZooPad<Size, Align> {
    Zoo() { zoo().born(this, this->id); }
    explicit Zoo(int i) : ZooPad<Size, Align>(i) { zoo().born(this, this->id); }
    Zoo(const Zoo& o) : ZooPad<Size, Align>(o) { zoo().born(this, this->id); }
    Zoo(Zoo&& o) noexcept : ZooPad<Size, Align>(o) { zoo().born(this, this->id); }
    Zoo& operator=(const Zoo& o) { ZooPad<Size, Align>::operator=(o); zoo().live[this] = this->id; return *this; }
    ~Zoo() { zoo().died(this, this->id); }
    bool intact() const { return EvBase::intact() && this->pad_ok() && this->aligned() && zoo().live.count(this); }
};
template <size_t Size, size_t Align> struct Zoo<Size, Align, Z_THROWING_MOVE> : ZooPad<Size, Align> {
    Zoo() { zoo().born(this, this->id); }
    explicit Zoo(int i) : ZooPad<Size, Align>(i) { zoo().born(this, this->id); }
    Zoo(const Zoo& o) : ZooPad<Size, Align>(o) { zoo().born(this, this->id); }
    Zoo(Zoo&& o) noexcept(false) : ZooPad<Size, Align>(o) { zoo().born(this, this->id); }   // forces the heap path of backmp11
    Zoo& operator=(const Zoo& o) { ZooPad<Size, Align>::operator=(o); zoo().live[this] = this->id; return *this; }
    ~Zoo() { zoo().died(this, this->id); }
    bool intact() const { return EvBase::intact() && this->pad_ok() && this->aligned() && zoo().live.count(this); }
};
template <size_t Size, size_t Align> struct Zoo<Size, Align, Z_SELFREF> : ZooPad<Size, Align> {
    const Zoo* self;
    Zoo() : self(this) { zoo().born(this, this->id); }
    explicit Zoo(int i) : ZooPad<Size, Align>(i), self(this) { zoo().born(this, this->id); }
    Zoo(const Zoo& o) : ZooPad<Size, Align>(o), self(this) { if (o.self != &o) zoo().err("selfref-source-relocated", &o, o.id); zoo().born(this, this->id); }
    Zoo(Zoo&& o) noexcept : ZooPad<Size, Align>(o), self(this) { if (o.self != &o) zoo().err("selfref-source-relocated", &o, o.id); zoo().born(this, this->id); }
    Zoo& operator=(const Zoo& o) { ZooPad<Size, Align>::operator=(o); self = this; zoo().live[this] = this->id; return *this; }
    ~Zoo() { if (self != this) zoo().err("selfref-relocated-at-destroy", this, this->id); zoo().died(this, this->id); }
    bool intact() const { return EvBase::intact() && this->pad_ok() && this->aligned() && self == this && zoo().live.count(this); }
};
template <size_t Size, size_t Align> struct Zoo<Size, Align, Z_DTOR_ONLY> : ZooPad<Size, Align> {
    Zoo() {}
    explicit Zoo(int i) : ZooPad<Size, Align>(i) {}
    // implicit copy; the destructor poisons the object so that a second destruction or a use after it shows
    ~Zoo() {
        if (!EvBase::intact() || !this->pad_ok()) zoo().err("destroy-damaged-or-twice", this, this->id);
        this->p0 ^= 0x5a5a5a5aU;
    }
    bool intact() const { return EvBase::intact() && this->pad_ok() && this->aligned(); }
};

// describe any event object that reaches a callback
template <class E, class = void> struct has_direct_entry : std::false_type {};
template <class E> struct has_direct_entry<E, std::void_t<typename E::direct_entry>> : std::true_type {};

template <class E> std::string evdesc(E const& e);

inline std::string evd_base(const char* name, EvBase const& b) {
    char tmp[96];
    snprintf(tmp, sizeof tmp, "%s:%d:%d", name, b.id, b.intact() ? 1 : 0);
    return tmp;
}

// event-type registry for any-held events (filled by generated code)
struct AnyDesc { const std::type_info* ti; std::string (*fn)(const void* anyobj, bool is_std); };
inline std::vector<AnyDesc>& any_registry() { static std::vector<AnyDesc> v; return v; }
template <class E> std::string any_fn(const void* a, bool is_std) {
    if (is_std) { const E* p = std::any_cast<E>(static_cast<const std::any*>(a)); return p ? evdesc(*p) : std::string("?"); }
    const E* p = boost::any_cast<E>(static_cast<const boost::any*>(a)); return p ? evdesc(*p) : std::string("?");
}
template <class E> void register_any() { any_registry().push_back(AnyDesc{&typeid(E), &any_fn<E>}); }

inline std::string evdesc_any(const std::type_info& ti, const void* a, bool is_std) {
    for (auto& d : any_registry()) if (*d.ti == ti) return "any(" + d.fn(a, is_std) + ")";
    return std::string("any(?)");
}

template <class E> std::string evdesc(E const& e) {
    if constexpr (std::is_base_of_v<EvBase, E>) {
        char tmp[96];
        snprintf(tmp, sizeof tmp, "%s:%d:%d", E::vf_name(), e.id, e.intact() ? 1 : 0);
        return tmp;
    } else if constexpr (std::is_same_v<E, boost::msm::front::none>) {
        return "none:-1:1";
    } else if constexpr (std::is_same_v<E, boost::any>) {
        return evdesc_any(e.type(), &e, false);
    } else if constexpr (std::is_same_v<E, std::any>) {
        return evdesc_any(e.type(), &e, true);
    } else if constexpr (has_direct_entry<E>::value) {
        return "W(" + evdesc(e.m_event) + ")";
    } else {
        return "other:-1:1";
    }
}

// ---------------------------------------------------------------- instances
// machine instance label = tag of the root object whose address range contains
// the Fsm& argument + the static machine name.
struct Range { const char* lo; const char* hi; char tag; };
inline std::vector<Range>& ranges() { static std::vector<Range> v; return v; }
inline void register_instance(const void* p, size_t sz, char tag) {
    for (auto& r : ranges()) if (r.tag == tag) { r.lo = (const char*)p; r.hi = r.lo + sz; return; }
    ranges().push_back(Range{(const char*)p, (const char*)p + sz, tag});
}
inline void unregister_instance(char tag) {
    auto& v = ranges();
    for (size_t i = 0; i < v.size(); ++i) if (v[i].tag == tag) { v.erase(v.begin() + i); return; }
}
inline char inst_tag(const void* p) {
    const char* c = (const char*)p;
    for (auto& r : ranges()) if (c >= r.lo && c < r.hi) return r.tag;
    return '?';
}
template <class Fsm> std::string mlabel(Fsm const& f) {
    std::string s(1, inst_tag(&f));
    s += ':';
    s += Fsm::vf_mname();
    return s;
}

// ---------------------------------------------------------------- script state
struct Effect {
    std::string site;   // callback site label, or "*" kind wildcard not supported
    char kind;          // callback kind the effect is attached to (G,A,EN,EX -> 'G','A','N','X'; 'T' no_transition; 'C' exception_caught)
    int nth;            // fire at the nth invocation (1-based) of that (kind,site) counted from registration
    int base = 0;       // invocation count at registration
    char api;           // 'p' process_event, 'q' enqueue_event
    char target;        // 's' self (Fsm& argument), 'r' root of the driven instance
    int ev;             // event type index
    int id;             // occurrence id
    bool done = false;
};

struct State {
    uint64_t gmask = ~0ULL;          // guard atom values for the current top-level op
    uint64_t kseed = 0;              // seed for completion-guard values (fixed per entry of the source)
    std::vector<Effect> effects;
    std::map<std::string, int> calls;  // (kind+site) -> invocation count since script start
    std::map<std::string, int> entries; // state site -> entry count (for completion guards)
    long fail_after = -1;            // failpoint countdown (callbacks), -1 = disarmed
    bool fail_armed = false;
    int fail_seq = 0;
    int depth = 0;                   // callback nesting depth
    bool reads = false;              // record in-callback reads
    std::function<void(char api, int ev, int id)> root_submit;
    void reset() { *this = State(); }
};
inline State& st() { static State s; return s; }

struct Injected : std::runtime_error {
    int seq;
    explicit Injected(int s) : std::runtime_error("vf-injected"), seq(s) {}
};

struct DepthGuard { DepthGuard() { ++st().depth; } ~DepthGuard() { --st().depth; } };

// per-Fsm submitter, specialised by generated code through ADL-free template
template <class Fsm> struct Submit {
    static void go(Fsm& fsm, char api, int ev, int id);   // defined by generated code (vf_gen_submit)
};

// in-callback reads: active ids of the Fsm& argument and its flags (generated)
template <class Fsm> struct Reads {
    static std::string get(Fsm& fsm);                      // defined by generated code
};

template <class Ev, class Fsm>
void record(const char* kind, const char* site, Ev const& e, Fsm& fsm, int v = -1) {
    std::string s;
    s.reserve(96);
    s += kind; s += ' ';
    s += site; s += ' ';
    s += mlabel(fsm); s += ' ';
    s += evdesc(e); s += ' ';
    char tmp[48];
    snprintf(tmp, sizeof tmp, "%d %d", st().depth, v);
    s += tmp;
    if constexpr (!std::is_const_v<Fsm>) { if (st().reads) { s += ' '; s += Reads<Fsm>::get(fsm); } }
    tr().line(s);
}

// run scripted effects attached to this invocation, then the failpoint
template <class Fsm>
void after_callback(char kind, const char* site, Fsm& fsm, bool may_throw) {
    State& S = st();
    std::string key(1, kind); key += site;
    int n = ++S.calls[key];
    for (size_t i = 0; i < S.effects.size(); ++i) {
        Effect& fx = S.effects[i];
        if (fx.done || fx.kind != kind || fx.base + fx.nth != n || fx.site != site) continue;
        fx.done = true;
        char tmp[160];
        snprintf(tmp, sizeof tmp, "SUB %s %c %c %c E%d:%d", site, kind, fx.api, fx.target, fx.ev, fx.id);
        tr().line(tmp);
        char api = fx.api, target = fx.target; int ev = fx.ev, id = fx.id;   // effects vector may grow during the call
        if (target == 'r') { if (S.root_submit) S.root_submit(api, ev, id); }
        else Submit<Fsm>::go(fsm, api, ev, id);
        tr().line("SUBRET");
    }
    if (may_throw && S.fail_armed) {
        if (S.fail_after == 0) {
            S.fail_armed = false;
            int seq = ++S.fail_seq;
            char tmp[64]; snprintf(tmp, sizeof tmp, "THROW %d", seq);
            tr().line(tmp);
            throw Injected(seq);
        }
        --S.fail_after;
    }
}

inline bool gval(int atom) { return (st().gmask >> (atom & 63)) & 1ULL; }
inline bool cgval(int atom, const char* src_site) {
    int n = st().entries[src_site];
    uint32_t h = mix((uint32_t)(st().kseed) ^ mix((uint32_t)atom * 2654435761U + (uint32_t)n * 40503U + (uint32_t)(st().kseed >> 32)));
    return h & 1U;
}

// ---------------------------------------------------------------- functors
// Guard atom: value from the per-op mask (or, for completion rows, fixed per entry of the source).
template <int Atom, int SiteIdx> struct Gd {
    template <class Ev, class Fsm, class S, class T>
    bool operator()(Ev const& e, Fsm& fsm, S&, T&) const;
};
template <int SiteIdx> struct Act {
    template <class Ev, class Fsm, class S, class T>
    void operator()(Ev const& e, Fsm& fsm, S&, T&) const;
};

// site tables (defined by generated code)
struct SiteInfo { const char* name; const char* cg_src; };   // cg_src != 0: completion guard, fixed per entry of that state site
const SiteInfo& guard_site(int idx);
const char* action_site(int idx);

template <int Atom, int SiteIdx>
template <class Ev, class Fsm, class S, class T>
bool Gd<Atom, SiteIdx>::operator()(Ev const& e, Fsm& fsm, S&, T&) const {
    const SiteInfo& si = guard_site(SiteIdx);
    bool v = si.cg_src ? cgval(Atom, si.cg_src) : gval(Atom);
    DepthGuard dg;
    record("G", si.name, e, fsm, v ? 1 : 0);
    after_callback('G', si.name, fsm, true);
    return v;
}
template <int SiteIdx>
template <class Ev, class Fsm, class S, class T>
void Act<SiteIdx>::operator()(Ev const& e, Fsm& fsm, S&, T&) const {
    const char* site = action_site(SiteIdx);
    DepthGuard dg;
    record("A", site, e, fsm);
    after_callback('A', site, fsm, true);
}

// member-function behaviours (basic / row2 / internal front-end families, C14): 'fe' is the front-end
// subobject of the machine; no scripted submissions or in-callback reads here, failpoints only
template <class Ev, class FE>
void member_record(const char* kind, const char* site, Ev const& e, FE& fe, int v = -1) {
    std::string s;
    s += kind; s += ' '; s += site; s += ' ';
    s += inst_tag(&fe); s += ':'; s += FE::vf_mname(); s += ' ';
    s += evdesc(e); s += ' ';
    char tmp[48]; snprintf(tmp, sizeof tmp, "%d %d", st().depth, v);
    s += tmp;
    tr().line(s);
}
inline void member_tick() {
    State& S = st();
    if (S.fail_armed) {
        if (S.fail_after == 0) {
            S.fail_armed = false;
            int seq = ++S.fail_seq;
            char tmp[64]; snprintf(tmp, sizeof tmp, "THROW %d", seq);
            tr().line(tmp);
            throw Injected(seq);
        }
        --S.fail_after;
    }
}
template <int Atom, int SiteIdx, class Ev, class FE> bool member_guard(Ev const& e, FE& fe) {
    const SiteInfo& si = guard_site(SiteIdx);
    bool v = si.cg_src ? cgval(Atom, si.cg_src) : gval(Atom);
    DepthGuard dg;
    member_record("G", si.name, e, fe, v ? 1 : 0);
    { std::string key("G"); key += si.name; ++st().calls[key]; }
    member_tick();
    return v;
}
template <class Ev, class FE> void member_action(int site_idx, Ev const& e, FE& fe) {
    const char* site = action_site(site_idx);
    DepthGuard dg;
    member_record("A", site, e, fe);
    { std::string key("A"); key += site; ++st().calls[key]; }
    member_tick();
}

// entry / exit bodies used by every generated state and front-end
template <class Ev, class Fsm> void on_entry_cb(const char* site, Ev const& e, Fsm& fsm) {
    DepthGuard dg;
    record("EN", site, e, fsm);
    after_callback('N', site, fsm, true);
    // counted only when the entry behaviour completes: an entry aborted by an injected exception does not start a
    // new "entry" of the state for the per-entry completion-guard values (the state was not entered)
    ++st().entries[site];
}
template <class Ev, class Fsm> void on_exit_cb(const char* site, Ev const& e, Fsm& fsm) {
    DepthGuard dg;
    record("EX", site, e, fsm);
    after_callback('X', site, fsm, true);
}
template <class Ev, class Fsm> void no_transition_cb(const char* site, Ev const& e, Fsm& fsm, int state) {
    DepthGuard dg;
    record("NT", site, e, fsm, state);
    after_callback('T', site, fsm, false);
}
template <class Ev, class Fsm> void exception_cb(const char* site, Ev const& e, Fsm& fsm, std::exception& ex) {
    DepthGuard dg;
    const Injected* inj = dynamic_cast<const Injected*>(&ex);
    record("XC", site, e, fsm, inj ? inj->seq : -2);
    after_callback('C', site, fsm, false);
}
template <class Ev, class Fsm> bool deferred_pred_cb(const char* site, int atom, Ev const& e, Fsm& fsm) {
    bool v = gval(atom);
    DepthGuard dg;
    bool r = st().reads;      // the Fsm argument is const here: no in-callback reads
    st().reads = false;
    record("DF", site, e, fsm, v ? 1 : 0);
    st().reads = r;
    return v;
}

// ---------------------------------------------------------------- script parsing
inline std::vector<std::string> split(const std::string& s, char sep) {
    std::vector<std::string> out; std::string cur;
    for (char c : s) { if (c == sep) { out.push_back(cur); cur.clear(); } else cur += c; }
    out.push_back(cur);
    return out;
}

} // namespace vf
#endif
