// Run-time oracle harness for the PlantUML tokenizer (C14): the constexpr functions of
// boost/msm/front/puml/puml.hpp are ordinary functions over std::string_view, so they are called here
// at run time on generated documents (one per stdin line, "\n" escaped as "\\n", "\t" as "\\t") and the
// fields they return are printed for comparison with the fields the generator intended.
#include <boost/msm/front/puml/puml.hpp>
#include <iostream>
#include <string>
#include <utility>

namespace pd = boost::msm::front::puml::detail;

static void field(const char* k, std::string_view v) {
    std::cout << k << "=<";
    for (char c : v) { if (c == '\n') std::cout << "\\n"; else if (c == '|') std::cout << "\\p"; else std::cout << c; }
    std::cout << ">|";
}

template <int N> struct Stt {
    static pd::Transition get(int t, std::string_view s) {
        if (t == N) return pd::parse_stt<N>(s);
        return Stt<N - 1>::get(t, s);
    }
};
template <> struct Stt<-1> { static pd::Transition get(int, std::string_view) { return pd::Transition{}; } };

template <int N> struct Ini {
    static std::string_view get(int t, std::string_view s) {
        if (t == N) return pd::parse_inits<N>(s);
        return Ini<N - 1>::get(t, s);
    }
};
template <> struct Ini<-1> { static std::string_view get(int, std::string_view) { return {}; } };

template <int N> struct Act {
    static std::string_view get(int t, std::string_view s) {
        if (t == N) return pd::parse_action<N>(s);
        return Act<N - 1>::get(t, s);
    }
};
template <> struct Act<-1> { static std::string_view get(int, std::string_view) { return {}; } };

static void transition(const pd::Transition& tr) {
    field("src", tr.source); field("tgt", tr.target); field("ev", tr.event); field("guard", tr.guard); field("action", tr.action);
    int na = pd::count_actions(tr.action);
    std::cout << "na=" << na << "|";
    for (int a = 0; a < na && a < 6; ++a) field("a", Act<5>::get(a, tr.action));
}

int main() {
    std::string line;
    long n = 0;
    while (std::getline(std::cin, line)) {
        std::string doc;
        for (size_t i = 0; i < line.size(); ++i) {
            if (line[i] == '\\' && i + 1 < line.size() && line[i + 1] == 'n') { doc += '\n'; ++i; }
            else if (line[i] == '\\' && i + 1 < line.size() && line[i + 1] == 't') { doc += '\t'; ++i; }
            else doc += line[i];
        }
        // exact-size heap copy: any read past the end is an ASan report
        char* buf = new char[doc.size()];
        std::copy(doc.begin(), doc.end(), buf);
        std::string_view sv(buf, doc.size());
        if (!doc.empty() && doc[0] == 'R') {            // single row
            std::string_view row = sv.substr(1);
            std::cout << "ROW|";
            transition(pd::parse_row(row));
            std::cout << "\n";
        } else {
            std::string_view d = sv.substr(doc.empty() ? 0 : 1);
            int ct = pd::count_transitions(d), ci = pd::count_inits(d), cx = pd::count_terminates(d);
            std::cout << "DOC|ct=" << ct << "|ci=" << ci << "|cx=" << cx << "|\n";
            int nt = ct - ci - cx;
            for (int t = 0; t < nt && t < 24; ++t) { std::cout << "T" << t << "|"; transition(Stt<23>::get(t, d)); std::cout << "\n"; }
            for (int r = 0; r < ci && r < 6; ++r) { std::cout << "I" << r << "|"; field("init", Ini<5>::get(r, d)); std::cout << "\n"; }
        }
        std::cout << "END " << n++ << "\n";
        delete[] buf;
    }
    return 0;
}
