"""spec -> instrumented C++ harness source (one TU; configuration chosen by -D macros)."""
from .spec import Index, guard_atoms


def cname(m, s):
    return '%s_%s' % (m, s)


class Gen:
    def __init__(self, spec, variant='functor'):
        import copy
        spec = copy.deepcopy(spec)       # Index annotates in place; never disturb the caller's (family specific) view
        self.spec = spec
        self.ix = Index(spec)
        self.variant = variant
        self.out = []

    def w(self, s=''):
        self.out.append(s)

    # ------------------------------------------------------------ pieces
    def ev_type(self, ev):
        if ev is None:
            return 'boost::msm::front::none'
        if ev == 'any':
            return 'vf::Kit::any_t'
        return ev

    def guard_expr(self, g, sites):
        """sites: iterator over guard-site indices in atom order."""
        if g is None:
            return 'boost::msm::front::none'
        if isinstance(g, int):
            idx = next(sites)
            return 'vf::Gd<%d,%d>' % (g, idx)
        if g[0] == 'not':
            return 'boost::msm::front::Not_<%s >' % self.guard_expr(g[1], sites)
        a = self.guard_expr(g[1], sites)
        b = self.guard_expr(g[2], sites)
        op = 'And_' if g[0] == 'and' else 'Or_'
        return 'boost::msm::front::%s<%s,%s >' % (op, a, b)

    def action_expr(self, r):
        if r['actions'] == 'Defer':
            return 'boost::msm::front::Defer'
        idxs = r['_asites']
        if not idxs:
            return 'boost::msm::front::none'
        if len(idxs) == 1:
            return 'vf::Act<%d>' % idxs[0]
        return 'boost::msm::front::ActionSequence_<boost::mpl::vector<%s > >' % ','.join('vf::Act<%d>' % i for i in idxs)

    def src_type(self, m, r):
        s = r['src']
        if isinstance(s, tuple):
            _, sub, x = s
            return '%s::exit_pt<%s >' % (sub, cname(sub, x))
        return self.state_type(m, s)

    def state_type(self, m, sname):
        st = m['states'][sname]
        if st['kind'] == 'sub':
            return sname            # back-end typedef of the submachine
        return cname(m['name'], sname)

    def tgt_type(self, m, r):
        t = r['tgt']
        if t is None:
            return 'boost::msm::front::none'
        if isinstance(t, tuple):
            if t[0] == 'direct':
                _, sub, names = t
                ds = ['%s::direct<%s >' % (sub, cname(sub, n)) for n in names]
                if len(ds) == 1:
                    return ds[0]
                return 'boost::mpl::vector<%s >' % ','.join(ds)
            if t[0] == 'entry':
                _, sub, p = t
                return '%s::entry_pt<%s >' % (sub, cname(sub, p))
        return self.state_type(m, t)

    # ---- member-function front-end families (C14)
    def member_ok(self, r):
        return self.variant in ('basic', 'row2') and r['actions'] != 'Defer'

    def fn_id(self, r):
        import re
        return re.sub(r'[^A-Za-z0-9]', '_', r['_site'])

    def guard_cpp(self, g, sites):
        if isinstance(g, int):
            idx = next(sites)
            return 'vf::member_guard<%d,%d>(e, *this)' % (g, idx)
        if g[0] == 'not':
            return '!(%s)' % self.guard_cpp(g[1], sites)
        op = '&&' if g[0] == 'and' else '||'
        a = self.guard_cpp(g[1], sites)
        b = self.guard_cpp(g[2], sites)
        return '((%s) %s (%s))' % (a, op, b)

    def member_fns(self, m):
        """member functions of the front-end for every table row / sm-internal row in member form"""
        out = []
        rows = list(m['table']) + list(m['internal'])
        for r in rows:
            if not self.member_ok(r):
                continue
            ev = self.ev_type(r['ev'])
            fid = self.fn_id(r)
            if r['_asites']:
                body = ' '.join('vf::member_action(%d, e, *this);' % i for i in r['_asites'])
                out.append('    void A_%s(%s const& e) { %s }' % (fid, ev, body))
            if r['guard'] is not None:
                out.append('    bool G_%s(%s const& e) { return %s; }' % (fid, ev, self.guard_cpp(r['guard'], iter(r['_gsites']))))
        return out

    def member_row_expr(self, m, r, fe):
        ev = self.ev_type(r['ev'])
        fid = self.fn_id(r)
        has_a = bool(r['_asites'])
        has_g = r['guard'] is not None
        src = self.src_type(m, r)
        A = '&%s::A_%s' % (fe, fid)
        G = '&%s::G_%s' % (fe, fid)
        two = self.variant == 'row2'
        if r['tgt'] is None:
            if has_a and has_g:
                return ('boost::msm::front::irow2<%s,%s,%s,%s,%s,%s >' % (src, ev, fe, A, fe, G)) if two else ('irow<%s,%s,%s,%s >' % (src, ev, A, G))
            if has_a:
                return ('boost::msm::front::a_irow2<%s,%s,%s,%s >' % (src, ev, fe, A)) if two else ('a_irow<%s,%s,%s >' % (src, ev, A))
            if has_g:
                return ('boost::msm::front::g_irow2<%s,%s,%s,%s >' % (src, ev, fe, G)) if two else ('g_irow<%s,%s,%s >' % (src, ev, G))
            return '_irow<%s,%s >' % (src, ev)
        tgt = self.tgt_type(m, r)
        if has_a and has_g:
            return ('boost::msm::front::row2<%s,%s,%s,%s,%s,%s,%s >' % (src, ev, tgt, fe, A, fe, G)) if two else ('row<%s,%s,%s,%s,%s >' % (src, ev, tgt, A, G))
        if has_a:
            return ('boost::msm::front::a_row2<%s,%s,%s,%s,%s >' % (src, ev, tgt, fe, A)) if two else ('a_row<%s,%s,%s,%s >' % (src, ev, tgt, A))
        if has_g:
            return ('boost::msm::front::g_row2<%s,%s,%s,%s,%s >' % (src, ev, tgt, fe, G)) if two else ('g_row<%s,%s,%s,%s >' % (src, ev, tgt, G))
        return ('boost::msm::front::_row2<%s,%s,%s >' % (src, ev, tgt)) if two else ('_row<%s,%s,%s >' % (src, ev, tgt))

    def member_internal_expr(self, r, fe):
        ev = self.ev_type(r['ev'])
        fid = self.fn_id(r)
        has_a = bool(r['_asites'])
        has_g = r['guard'] is not None
        A = '&%s::A_%s' % (fe, fid)
        G = '&%s::G_%s' % (fe, fid)
        if has_a and has_g:
            return 'boost::msm::front::internal<%s,%s,%s,%s,%s >' % (ev, fe, A, fe, G)
        if has_a:
            return 'boost::msm::front::a_internal<%s,%s,%s >' % (ev, fe, A)
        if has_g:
            return 'boost::msm::front::g_internal<%s,%s,%s >' % (ev, fe, G)
        return 'boost::msm::front::_internal<%s >' % ev

    def row_expr(self, m, r):
        if self.member_ok(r):
            return self.member_row_expr(m, r, m['name'] + '_')
        g = self.guard_expr(r['guard'], iter(r['_gsites']))
        a = self.action_expr(r)
        return 'boost::msm::front::Row<%s,%s,%s,%s,%s >' % (
            self.src_type(m, r), self.ev_type(r['ev']), self.tgt_type(m, r), a, g)

    def internal_expr(self, r):
        g = self.guard_expr(r['guard'], iter(r['_gsites']))
        a = self.action_expr(r)
        return 'boost::msm::front::Internal<%s,%s,%s >' % (self.ev_type(r['ev']), a, g)

    # ------------------------------------------------------------ emit
    def emit(self):
        sp, ix, w = self.spec, self.ix, self.w
        w('// generated from spec %s -- do not edit' % sp['name'])
        w('#if defined(VF_SERIALIZE)')
        w('#include <boost/archive/text_oarchive.hpp>')
        w('#include <boost/archive/text_iarchive.hpp>')
        w('#include <boost/archive/binary_oarchive.hpp>')
        w('#include <boost/archive/binary_iarchive.hpp>')
        w('#include <boost/serialization/array.hpp>')
        w('#include <sstream>')
        w('#endif')
        w('#include "vf_rt.hpp"')
        w('#include "vf_kits.hpp"')
        w('#include <boost/msm/front/operator.hpp>')
        w('#include <boost/msm/front/row2.hpp>')
        w('#include <boost/msm/front/internal_row.hpp>')
        if self.variant == 'euml':
            w('#include <boost/msm/front/euml/euml.hpp>')
        w('#include <memory>')
        w('namespace mpl = boost::mpl;')
        w()
        bases = sp.get('bases', {})
        exit_events = set(sp.get('exit_events', []))
        zoo = sp.get('zoo', {})
        for ev in sp['events']:
            b = bases.get(ev, 'vf::EvBase')
            if ev in zoo:
                b = 'vf::Zoo<%d,%d,%d>' % tuple(zoo[ev])
            w('struct %s : %s%s {' % (ev, b, (', boost::msm::front::euml::euml_event<%s>' % ev) if self.variant == 'euml' else ''))
            w('    %s() {}' % ev)
            w('    explicit %s(int i) : %s(i) {}' % (ev, b))
            if ev in exit_events:
                w('    template <class Ev, class = std::enable_if_t<std::is_base_of_v<vf::EvBase, Ev> && !std::is_base_of_v<%s, Ev> > >' % ev)
                w('    %s(Ev const& e) : %s(e.id) {}' % (ev, b))
            w('    static const char* vf_name() { return "%s"; }' % ev)
            w('};')
        for f in sp.get('flags', []):
            w('struct %s {};' % f)
        if self.variant == 'euml':
            for ev in sp['events']:
                w('static %s const %s_ei;' % (ev, ev))
            w('template <int A, int I> struct GdE : boost::msm::front::euml::euml_action<GdE<A, I> > {')
            w('    template <class Ev, class Fsm, class S, class T> bool operator()(Ev const& e, Fsm& f, S& s, T& t) const { return vf::Gd<A, I>()(e, f, s, t); }')
            w('};')
            w('template <int I> struct ActE : boost::msm::front::euml::euml_action<ActE<I> > {')
            w('    template <class Ev, class Fsm, class S, class T> void operator()(Ev const& e, Fsm& f, S& s, T& t) const { vf::Act<I>()(e, f, s, t); }')
            w('};')
        w()
        w('namespace vf {')
        w('const SiteInfo& guard_site(int i) {')
        w('    static const SiteInfo t[] = {')
        for g in ix.gsites:
            w('        {"%s", %s},' % (g['name'], ('"%s"' % g['cg_src']) if g['cg_src'] else '0'))
        w('        {"", 0} };')
        w('    return t[i];')
        w('}')
        w('const char* action_site(int i) {')
        w('    static const char* t[] = {')
        for a in ix.asites:
            w('        "%s",' % a)
        w('        "" };')
        w('    return t[i];')
        w('}')
        w('std::vector<std::string>& vis_log() { static std::vector<std::string> v; return v; }')
        w('}')
        w()
        w('#if defined(VF_FAM_MP11)')
        w('struct VB {};')
        w('#else')
        w('struct VB { typedef boost::msm::back::args<void> accept_sig; void accept() const {} };')
        w('#endif')
        w()
        # forward declarations of every front-end + back-end typedef (inner first)
        for m in ix.order:
            w('struct %s_;' % m['name'])
            w('typedef vf::Kit::sm<%s_, %s >::type %s;' % (m['name'], self.hist_type(m), m['name']))
        w()
        for m in ix.order:
            self.emit_machine(m)
        self.emit_support()
        return '\n'.join(self.out) + '\n'

    def hist_type(self, m):
        h = m.get('history')
        if h is None:
            return 'vf::HistNone'
        if h == 'always':
            return 'vf::HistAlways'
        return 'vf::HistShallow<%s >' % ','.join(h)

    def emit_state(self, m, sn, s):
        w = self.w
        mn = m['name']
        cn = cname(mn, sn)
        site = '%s.%s' % (mn, sn)
        k = s['kind']
        if k == 'simple':
            base = 'boost::msm::front::state<VB>'
        elif k == 'explicit':
            base = 'boost::msm::front::state<VB>, boost::msm::front::explicit_entry<%d>' % s['zone']
        elif k == 'terminate':
            base = 'boost::msm::front::terminate_state<VB>'
        elif k == 'interrupt':
            ee = s['end_events']
            evs = ee[0] if len(ee) == 1 else 'boost::mpl::vector<%s >' % ','.join(ee)
            base = 'boost::msm::front::interrupt_state<%s, VB>' % evs
        elif k == 'entry_pt':
            base = 'boost::msm::front::entry_pseudo_state<%d, VB>' % s['zone']
        elif k == 'exit_pt':
            base = 'boost::msm::front::exit_pseudo_state<%s, VB>' % s['event']
        else:
            raise ValueError(k)
        if self.variant == 'euml':
            base += ', boost::msm::front::euml::euml_state<%s>' % cn
        w('struct %s : %s {' % (cn, base))
        w('    static const char* vf_site() { return "%s"; }' % site)
        w('#if defined(VF_SERIALIZE)')
        w('    int vf_data = 0;')
        if self.ser_optin(mn, sn):
            w('    typedef int do_serialize;')
            w('    template <class Ar> void serialize(Ar& ar, const unsigned int) { ar & vf_data; }')
        w('    template <class Ev, class Fsm> void on_entry(Ev const& e, Fsm& f) { ++vf_data; vf::on_entry_cb(vf_site(), e, f); }')
        w('#else')
        w('    template <class Ev, class Fsm> void on_entry(Ev const& e, Fsm& f) { vf::on_entry_cb(vf_site(), e, f); }')
        w('#endif')
        w('    template <class Ev, class Fsm> void on_exit(Ev const& e, Fsm& f) { vf::on_exit_cb(vf_site(), e, f); }')
        w('    void accept() const { vf::vis_log().push_back(vf_site()); }')
        if s['flags']:
            w('    typedef boost::mpl::vector<%s > flag_list;' % ','.join(s['flags']))
        if s['deferred']:
            w('    typedef boost::mpl::vector<%s > deferred_events;' % ','.join(s['deferred']))
            if s.get('defer_atom') is not None:
                w('#if defined(VF_FAM_MP11)')
                w('    template <class Ev, class Fsm> bool is_event_deferred(Ev const& e, Fsm& f) const { return vf::deferred_pred_cb(vf_site(), %d, e, f); }' % s['defer_atom'])
                w('#endif')
        if s['internal']:
            member = self.variant in ('basic', 'row2')
            if member:
                # the state-local table written with the member-function internal rows (internal / a_internal /
                # g_internal / _internal): guards and actions are members of the state
                w('    static const char* vf_mname() { return "%s"; }' % mn)
                for r in s['internal']:
                    ev = self.ev_type(r['ev'])
                    fid = self.fn_id(r)
                    if r['_asites']:
                        w('    void A_%s(%s const& e) { %s }' % (fid, ev, ' '.join('vf::member_action(%d, e, *this);' % i for i in r['_asites'])))
                    if r['guard'] is not None:
                        w('    bool G_%s(%s const& e) { return %s; }' % (fid, ev, self.guard_cpp(r['guard'], iter(r['_gsites']))))
            if member:
                # backmp11 does not compile the member-function internal rows of a *state* (they look the state up
                # with fusion::at_key in the back-end's state list): functor rows there
                w('#if !defined(VF_FAM_MP11)')
                w('    struct internal_transition_table : boost::mpl::vector<')
                w('        ' + ',\n        '.join((self.member_internal_expr(r, cn) if self.member_ok(r) else self.internal_expr(r))
                                                 for r in s['internal']))
                w('    > {};')
                w('#else')
            w('    struct internal_transition_table : boost::mpl::vector<')
            w('        ' + ',\n        '.join(self.internal_expr(r) for r in s['internal']))
            w('    > {};')
            if member:
                w('#endif')
        w('};')
        if self.variant == 'euml':
            w('static %s const %s_ei;' % (cn, cn))

    # ------------------------------------------------------------ eUML transition-table expression (C14)
    def euml_guard(self, g, sites, parent=None):
        if isinstance(g, int):
            return 'GdE<%d,%d>()' % (g, next(sites))
        if g[0] == 'not':
            return '!' + self.euml_guard(g[1], sites, 'not')
        a = self.euml_guard(g[1], sites, g[0])
        b = self.euml_guard(g[2], sites, g[0])
        txt = '%s %s %s' % (a, '&&' if g[0] == 'and' else '||', b)
        # the C++ operators build the expression: parentheses exactly where the tree needs them
        if (parent == 'and' and g[0] == 'or') or parent == 'not':
            return '(' + txt + ')'
        return txt

    def euml_row(self, m, r):
        assert not isinstance(r['src'], tuple) and r['ev'] not in (None, 'any') and r['actions'] != 'Defer', 'not expressible here'
        t = '%s_ei + %s_ei' % (cname(m['name'], r['src']), r['ev'])
        if r['guard'] is not None:
            t += ' [%s]' % self.euml_guard(r['guard'], iter(r['_gsites']))
        if r['_asites']:
            acts = ['ActE<%d>()' % i for i in r['_asites']]
            t += ' / ' + (acts[0] if len(acts) == 1 else '(' + ', '.join(acts) + ')')
        if r['tgt'] is not None:
            t += ' == %s_ei' % cname(m['name'], r['tgt'])
        return t

    def ser_optin(self, mn, sn):
        """which states / front-ends opt in to serialization of their data (about half of them)"""
        import zlib
        if sn == '#fe':
            return zlib.crc32(mn.encode()) % 3 != 0
        return zlib.crc32(('%s.%s' % (mn, sn)).encode()) % 2 == 0

    def uses_defer(self, m):
        rows = list(m['table']) + list(m['internal'])
        for s in m['states'].values():
            rows += s['internal']
        return any(r['actions'] == 'Defer' for r in rows)

    def level_has_deferral(self, m):
        return self.uses_defer(m) or any(s['deferred'] for s in m['states'].values())

    def emit_machine(self, m):
        w, ix = self.w, self.ix
        mn = m['name']
        par = ix.parent[mn]
        for sn, s in m['states'].items():
            if s['kind'] != 'sub':
                self.emit_state(m, sn, s)
        site = ('%s.%s' % (par[0], mn)) if par else ('.%s' % mn)
        w('struct %s_ : boost::msm::front::state_machine_def<%s_, VB> {' % (mn, mn))
        w('    static const char* vf_site() { return "%s"; }' % site)
        w('    static const char* vf_mname() { return "%s"; }' % mn)
        w('#if defined(VF_SERIALIZE)')
        w('    int vf_data = 0;')
        if self.ser_optin(mn, '#fe'):
            w('    typedef int do_serialize;')
            w('    template <class Ar> void serialize(Ar& ar, const unsigned int) { ar & vf_data; }')
        w('    template <class Ev, class Fsm> void on_entry(Ev const& e, Fsm& f) { ++vf_data; vf::on_entry_cb(vf_site(), e, f); }')
        w('#else')
        w('    template <class Ev, class Fsm> void on_entry(Ev const& e, Fsm& f) { vf::on_entry_cb(vf_site(), e, f); }')
        w('#endif')
        w('    template <class Ev, class Fsm> void on_exit(Ev const& e, Fsm& f) { vf::on_exit_cb(vf_site(), e, f); }')
        w('    template <class Fsm, class Ev> void no_transition(Ev const& e, Fsm& f, int s) { vf::no_transition_cb("%s", e, f, s); }' % mn)
        w('    template <class Fsm, class Ev> void exception_caught(Ev const& e, Fsm& f, std::exception& x) { vf::exception_cb("%s", e, f, x); }' % mn)
        w('    void accept() const { vf::vis_log().push_back(vf_site()); }')
        w('    typedef vf::switch_policy<VF_SWITCH>::type active_state_switch_policy;')
        w('    using history = vf::front_hist<%s >::type;' % self.hist_type(m))
        inits = [self.state_type(m, n) for n in m['regions']]
        if len(inits) == 1:
            # the common single-region spelling: the back-ends have a separate dispatch path for it
            # (region_processing_helper without the region loop)
            w('    typedef %s initial_state;' % inits[0])
        else:
            w('    typedef boost::mpl::vector<%s > initial_state;' % ','.join(inits))
        ec = ix.explicit_creation(m)
        if ec:
            w('    typedef boost::mpl::vector<%s > explicit_creation;' % ','.join(self.state_type(m, n) for n in ec))
        if self.uses_defer(m):
            w('    typedef int activate_deferred_events;')
        # the submachine seen as a state of its parent
        if par:
            ps = ix.machines[par[0]]['states'][mn]
            if ps['flags']:
                w('    typedef boost::mpl::vector<%s > flag_list;' % ','.join(ps['flags']))
            if ps['deferred']:
                w('    typedef boost::mpl::vector<%s > deferred_events;' % ','.join(ps['deferred']))
        for line in self.member_fns(m):
            w(line)
        if self.variant == 'euml':
            w('    BOOST_MSM_EUML_DECLARE_TRANSITION_TABLE((')
            w('        ' + ',\n        '.join(self.euml_row(m, r) for r in m['table']))
            w('    ), transition_table)')
        else:
            w('    struct transition_table : boost::mpl::vector<')
            w('        ' + ',\n        '.join(self.row_expr(m, r) for r in m['table']))
            w('    > {};')
        if m['internal']:
            w('    struct internal_transition_table : boost::mpl::vector<')
            w('        ' + ',\n        '.join((self.member_internal_expr(r, mn + '_') if self.member_ok(r) else self.internal_expr(r))
                                             for r in m['internal']))
            w('    > {};')
        w('};')
        w()

    # ------------------------------------------------------------ driver support
    def emit_support(self):
        w, ix, sp = self.w, self.ix, self.spec
        root = sp['root']
        flags = sp.get('flags', [])
        w('#if defined(VF_CFG_bc)')
        for m in ix.order:
            if ix.parent[m['name']]:
                w('BOOST_MSM_BACK_GENERATE_PROCESS_EVENT(%s)' % m['name'])
        w('#endif')
        w()
        w('#if defined(VF_FAM_BACK11)')
        w('#define VF_EV(T, name) T name(id)')
        w('#else')
        w('#define VF_EV(T, name) const T name(id)')
        w('#endif')
        w('namespace vf {')
        # Submit<Fsm>
        for m in ix.order:
            mn = m['name']
            w('template <> void Submit<%s>::go(%s& fsm, char api, int ev, int id) {' % (mn, mn))
            w('    switch (ev) {')
            for i, ev in enumerate(sp['events']):
                w('    case %d: { VF_EV(%s, e); if (api == \'p\') fsm.process_event(e); else fsm.enqueue_event(e); break; }' % (i, ev))
            w('    default: break; }')
            w('}')
        # Reads<Fsm>
        for m in ix.order:
            mn = m['name']
            w('template <> std::string Reads<%s>::get(%s& fsm) {' % (mn, mn))
            w('    std::string s = "cs=";')
            w('    char tmp[32];')
            for r in range(len(m['regions'])):
                w('    snprintf(tmp, sizeof tmp, "%s%%d", Kit::cur(fsm, %d)); s += tmp;' % (',' if r else '', r))
            if flags:
                w('    s += " fl=";')
                for f in flags:
                    w('    s += Kit::flag_or<%s>(fsm) ? \'1\' : \'0\';' % f)
            w('    return s;')
            w('}')
        w('}')
        w()
        w('struct VFH {')
        w('    typedef %s Root;' % root['name'])
        w('    static const int n_ev = %d;' % len(sp['events']))
        # prepare
        w('    static void prepare(Root& root) {')
        self._walk_levels(root, 'root', lambda m, expr: [
            '        vf::Kit::prepare(%s);' % expr] + (
            ['        vf::Kit::prepare_defq(%s);' % expr] if self.level_has_deferral(m) else []))
        w('    }')
        # process / enqueue
        w('    static int process(Root& root, int ev, int id) {')
        w('        switch (ev) {')
        for i, ev in enumerate(sp['events']):
            w('        case %d: { VF_EV(%s, e); return (int)root.process_event(e); }' % (i, ev))
        w('        default: return -1; }')
        w('    }')
        w('    static void enqueue(Root& root, int ev, int id) {')
        w('        switch (ev) {')
        for i, ev in enumerate(sp['events']):
            w('        case %d: { VF_EV(%s, e); root.enqueue_event(e); break; }' % (i, ev))
        w('        default: break; }')
        w('    }')
        # idmap
        w('    static void idmap(std::string& o) {')
        w('        char tmp[64];')
        for m in ix.order:
            mn = m['name']
            w('        o += "ID %s";' % mn)
            for sn in m['states']:
                w('        snprintf(tmp, sizeof tmp, " %s=%%d", vf::Kit::state_id<%s, %s >()); o += tmp;' % (sn, mn, self.id_type(m, sn)))
            w('        o += "\\n";')
        w('    }')
        # snapshot: active levels
        w('    template <class SM> static void flags_of(SM& sm, std::string& o) {')
        w('        (void)sm; o += ":";')
        for f in flags:
            w('        o += vf::Kit::flag_or<%s>(sm) ? \'1\' : \'0\';' % f)
        w('        o += ":";')
        for f in flags:
            w('        o += vf::Kit::flag_and<%s>(sm) ? \'1\' : \'0\';' % f)
        w('    }')
        for m in ix.order:
            mn = m['name']
            w('    static void snap_%s(%s& sm, std::string& o) {' % (mn, mn))
            w('        char tmp[32];')
            w('        o += " %s=";' % ix.machine_path(mn))
            nreg = len(m['regions'])
            for r in range(nreg):
                w('        snprintf(tmp, sizeof tmp, "%s%%d", vf::Kit::cur(sm, %d)); o += tmp;' % (',' if r else '', r))
            w('        flags_of(sm, o);')
            subs = [sn for sn, s in m['states'].items() if s['kind'] == 'sub']
            if subs:
                w('        for (int r = 0; r < %d; ++r) {' % nreg)
                w('            int id = vf::Kit::cur(sm, r);')
                for sn in subs:
                    w('            if (id == vf::Kit::state_id<%s, %s >()) snap_%s(sm.get_state<%s&>(), o);' % (mn, sn, sn, sn))
                w('        }')
            w('    }')
        w('    static void snap(Root& root, std::string& o) {')
        w('        o += "L"; snap_%s(root, o);' % root['name'])
        # queues of every level
        w('        char tmp[64]; o += " Q";')
        self._walk_levels(root, 'root', lambda m, expr: [
            '        snprintf(tmp, sizeof tmp, " %s=%%ld/%%ld", vf::Kit::msgq(%s), %s); o += tmp;' % (
                ix.machine_path(m['name']), expr,
                ('vf::Kit::defq(%s)' % expr) if self.level_has_deferral(m) else '-1L')])
        w('#if defined(VF_SERIALIZE)')
        w('        o += " DATA=";')
        self._walk_levels(root, 'root', lambda m, expr: (
            ['        snprintf(tmp, sizeof tmp, "%s#fe:%%d,", static_cast<%s_&>(%s).vf_data); o += tmp;' % (m['name'], m['name'], expr)]
            if self.ser_optin(m['name'], '#fe') else []) + [
            '        snprintf(tmp, sizeof tmp, "%s.%s:%%d,", %s.get_state<%s&>().vf_data); o += tmp;' % (m['name'], sn, expr, self.id_type(m, sn))
            for sn, st in m['states'].items() if st['kind'] != 'sub' and self.ser_optin(m['name'], sn)])
        w('#endif')
        # is_state_active (backmp11)
        w('#if defined(VF_FAM_MP11)')
        w('        o += " ACT=";')
        for m in ix.order:
            for sn in m['states']:
                w('        if (root.is_state_active<%s >()) { o += "%s.%s,"; }' % (self.id_type(m, sn), m['name'], sn))
        w('#endif')
        w('    }')
        # visitors
        w('    static void visit(Root& root, std::string& o) {')
        w('        vf::vis_log().clear();')
        w('#if defined(VF_FAM_MP11)')
        w('        namespace mp = boost::msm::backmp11;')
        w('        auto v = [](auto& s) { vf::vis_log().push_back(std::remove_reference_t<decltype(s)>::vf_site()); };')
        w('        root.visit(v); o += " VIS="; for (auto& s : vf::vis_log()) { o += s; o += ","; } vf::vis_log().clear();')
        w('        root.visit<mp::visit_mode::active_non_recursive>(v); o += " VISN="; for (auto& s : vf::vis_log()) { o += s; o += ","; } vf::vis_log().clear();')
        w('        root.visit<mp::visit_mode::all_recursive>(v); { char t[32]; snprintf(t, sizeof t, " VISALL=%zu", vf::vis_log().size()); o += t; } vf::vis_log().clear();')
        w('        root.visit<mp::visit_mode::all_non_recursive>(v); { char t[32]; snprintf(t, sizeof t, " VISALLN=%zu", vf::vis_log().size()); o += t; } vf::vis_log().clear();')
        w('#else')
        w('        root.visit_current_states(); o += " VIS="; for (auto& s : vf::vis_log()) { o += s; o += ","; } vf::vis_log().clear();')
        w('#endif')
        w('    }')
        # get_state_by_id identity (back / back11)
        w('    static void idcheck(Root& root, std::string& o) {')
        w('#if !defined(VF_FAM_MP11)')
        self._walk_levels(root, 'root', lambda m, expr: [
            '        { bool ok = true;'] + [
            '          ok = ok && (%s.get_state_by_id(vf::Kit::state_id<%s, %s >()) == static_cast<VB*>(&%s.get_state<%s&>()));' % (
                expr, m['name'], self.id_type(m, sn), expr, self.id_type(m, sn)) for sn in m['states']] + [
            '          ok = ok && (%s.get_state_by_id(%d) == 0);' % (expr, len(m['states'])),
            '          o += ok ? " %s=ok" : " %s=BAD"; }' % (m['name'], m['name'])])
        w('#else')
        w('        (void)root; o += " n/a";')
        w('#endif')
        w('    }')
        w('    static void register_any() {')
        for ev in sp['events']:
            w('        vf::register_any<%s>();' % ev)
        w('    }')
        w('};')
        w()
        w('#include "vf_driver.hpp"')
        w('int main(int argc, char** argv) { return vf::run_main<VFH>(argc, argv); }')

    def id_type(self, m, sn):
        """C++ type under which the state is known to the back-end of machine m."""
        s = m['states'][sn]
        if s['kind'] == 'sub':
            return sn
        if s['kind'] == 'exit_pt':
            return '%s::exit_pt<%s >' % (m['name'], cname(m['name'], sn))
        return cname(m['name'], sn)

    def _walk_levels(self, m, expr, fn):
        for line in fn(m, expr):
            self.w(line)
        for sn, s in m['states'].items():
            if s['kind'] == 'sub':
                self._walk_levels(s['machine'], '%s.get_state<%s&>()' % (expr, sn), fn)


def generate(spec, variant='functor'):
    return Gen(spec, variant).emit()
