"""Generated machine definitions ("programs"): well-formed specs drawn from a seed inside the bounds of the
property quantifiers (1-3 regions, depth <= 3, conflicting rows) and inside MSM's own static constraints
(regions disjoint, one use per submachine type, <= 18 rows per table).  Features with dedicated curated
machines (pseudo states, Kleene/base triggers, blocking states, deferral) are left out here so that every
generated machine is inside the common subset of all seven configurations."""
import random

from .spec import St, Row, Machine, Sub

EVENTS = ['E0', 'E1', 'E2', 'E3', 'E4', 'E5']


class G:
    def __init__(self, seed):
        self.r = random.Random(seed * 7919 + 13)
        self.seed = seed
        self.nmach = 0
        self.atoms = 0
        self.catoms = 20

    def guard(self, p=0.6):
        r = self.r
        if r.random() > p:
            return None

        def atom():
            return r.randrange(0, 8)
        x = r.random()
        if x < 0.6:
            return atom()
        if x < 0.75:
            return ('not', atom())
        if x < 0.9:
            return (r.choice(['and', 'or']), atom(), atom())
        return (r.choice(['and', 'or']), atom(), (r.choice(['and', 'or']), ('not', atom()), atom()))

    def actions(self, tag):
        n = self.r.choice([0, 1, 1, 2])
        return ['%s%d' % (tag, k) for k in range(n)]

    def machine(self, depth, maxdepth, prefix):
        r = self.r
        self.nmach += 1
        name = '%s%d' % ('R' if depth == 0 else 'S', self.nmach)
        if depth == 0:
            name = 'Root'
        nreg = r.choice([1, 1, 2, 2, 3]) if depth < 2 else r.choice([1, 2])
        states = {}
        regions = []
        table = []
        completion_used = False
        reg_states = []
        for ri in range(nreg):
            k = r.choice([2, 3, 3, 4])
            names = ['%s%s%d' % (prefix, 'abc'[ri], i) for i in range(k)]
            for n in names:
                states[n] = St()
            regions.append(names[0])
            reg_states.append(names)
        # at most one submachine per level, in a random region, never as the only state of its region
        subname = None
        if depth < maxdepth and r.random() < 0.8:
            ri = r.randrange(nreg)
            sub = self.machine(depth + 1, maxdepth, prefix + 'x')
            subname = sub['name']
            hist = r.choice([None, None, 'always', [r.choice(EVENTS), r.choice(EVENTS)]])
            sub['history'] = hist if not isinstance(hist, list) else sorted(set(hist))
            states[subname] = Sub(sub)
            reg_states[ri].append(subname)
        budget = 17
        # rows inside each region; conflicts are likely because sources/events repeat
        for ri, names in enumerate(reg_states):
            nrows = min(budget, r.choice([3, 4, 6, 7]))
            budget -= nrows
            for _ in range(nrows):
                src = r.choice(names)
                ev = r.choice(EVENTS[:5])
                if r.random() < 0.15:
                    tgt = None
                else:
                    tgt = r.choice(names)
                g = self.guard()
                acts = self.actions('t')
                if tgt is None and g is None and not acts:
                    acts = ['i0']          # an internal row without guard and action would be invisible
                table.append(Row(src, ev, tgt, guard=g, actions=acts))
            # make sure the submachine can be entered and left
            if subname in names:
                others = [n for n in names if n != subname]
                table.append(Row(r.choice(others), 'E5', subname, actions=['in']))
                table.append(Row(subname, 'E5', r.choice(others), guard=self.guard(0.3)))
                budget -= 2
        # explicit entry / fork into the submachine (C02, C08, C09): one row whose target names non-initial simple
        # states of 1..n distinct regions of the submachine, in region order
        if subname is not None and r.random() < 0.75 and len(table) < 18:
            subm = states[subname]['machine']
            per_region = []
            for ri2, init in enumerate(subm['regions']):
                # states of that region: same name prefix letter as its initial state
                cands = [n for n, st in subm['states'].items()
                         if st['kind'] == 'simple' and n != init and n[:-1] == init[:-1]]
                if cands:
                    per_region.append((ri2, r.choice(cands)))
            if per_region:
                k = r.randrange(1, len(per_region) + 1)
                chosen = sorted(r.sample(per_region, k))
                for ri2, n in chosen:
                    subm['states'][n]['kind'] = 'explicit'
                    subm['states'][n]['zone'] = ri2
                home = [n for names in reg_states if subname in names for n in names if n != subname]
                table.append(Row(r.choice(home), 'E4', ('direct', subname, [n for _, n in chosen]), actions=['fork']))
                budget -= 1
        # one guarded completion row per machine at most, from a simple state to a later simple state (no cycles)
        if r.random() < 0.45 and budget > 0 and len(table) < 19:
            names = [n for n in r.choice(reg_states) if states[n]['kind'] == 'simple']     # any region
            if len(names) >= 2:
                i = r.randrange(len(names) - 1)
                self.catoms += 1
                table.append(Row(names[i], None, names[r.randrange(i + 1, len(names))], guard=self.catoms, actions=['c']))
        # state-internal tables
        for n, s in states.items():
            if s['kind'] == 'simple' and r.random() < 0.2:
                s['internal'] = [Row(n, r.choice(EVENTS[:5]), None, guard=self.guard(0.7), actions=['si'])]
                if s['internal'][0]['guard'] is not None and sum(map(ord, n)) % 3 == 0:
                    s['internal'][0]['actions'] = []        # guard-only internal row (Internal<E, none, G> / g_internal)
                if s['internal'][0]['guard'] is None and r.random() < 0.5:
                    s['internal'].append(Row(n, r.choice(EVENTS[:5]), None, guard=self.guard(1.0), actions=['sj']))
        internal = []
        def deep_completion(mm):
            return any(rw['ev'] is None for rw in mm['table']) or any(
                deep_completion(st['machine']) for st in mm['states'].values() if st['kind'] == 'sub')
        has_completion = any(rw['ev'] is None for rw in table) or any(
            deep_completion(st['machine']) for st in states.values() if st['kind'] == 'sub')
        # back favor_compile_time does not compile a machine with both completion rows and a machine-level
        # internal table (get_state_id of the machine itself in the completion default cells)
        if r.random() < 0.35 and not has_completion:
            internal.append(Row(None, r.choice(EVENTS[:5]), None, guard=self.guard(0.8), actions=['smi']))
        r.shuffle(table)
        return Machine(name, regions, states, table, internal=internal)


def generate(seed):
    g = G(seed)
    maxdepth = g.r.choice([1, 2, 2])
    root = g.machine(0, maxdepth, 'p')
    # root-level list deferral (C05) inside the common subset of C13: one dedicated event type E6, deferred by some
    # simple states of ONE root region and handled by the other simple states of that region (no state both defers
    # and handles it, no other region reacts to it); own random stream
    dr = random.Random(seed * 17 + 3)
    if dr.random() < 0.7:
        ri = dr.randrange(len(root['regions']))
        pre = root['regions'][ri][:-1]
        names = [n for n, st in root['states'].items() if st['kind'] == 'simple' and n[:-1] == pre]
        if len(names) >= 2:
            dr.shuffle(names)
            ndef = dr.randrange(1, len(names))
            for n in names[:ndef]:
                root['states'][n]['deferred'] = ['E6']
            for n in names[ndef:]:
                if len(root['table']) >= 20:
                    break
                tgt = dr.choice([None, dr.choice(names)])
                root['table'].append(Row(n, 'E6', tgt, guard=(dr.randrange(8) if dr.random() < 0.4 else None), actions=['h6']))
    # flags (C17): passive, so they are drawn from a separate stream - the machine structure of a seed stays put;
    # on simple states and on submachine states at every level (a flag 2+ levels down must be seen from the root)
    fr = random.Random(seed * 31 + 5)

    def flag(m, depth):
        for st in m['states'].values():
            if fr.random() < 0.35:
                st['flags'] = [f for f in ('F0', 'F1') if fr.random() < 0.6] or ['F0']
            if depth >= 2 and fr.random() < 0.5:
                st['flags'] = st['flags'] + ['F2']      # F2 lives two or more levels down only: nothing shallower masks it
            if st['kind'] == 'sub':
                flag(st['machine'], depth + 1)
    flag(root, 0)
    return {'name': 'G%d' % seed, 'events': list(EVENTS) + ['E6'], 'flags': ['F0', 'F1', 'F2'], 'root': root}


# ---------------------------------------------------------------------------------------------------------
# flat machines for the front-end differential (C14): guard expressions drawn from the documented PlantUML
# guard grammar - names, !, &&, ||, one level of parentheses - as expression trees; gen_puml prints them with
# the parentheses C++ precedence needs, gen_cpp builds And_/Or_/Not_ (or member-function bodies) from the tree

def guard_tree(r, natoms=5):
    def lit():
        a = r.randrange(natoms)
        return ('not', a) if r.random() < 0.3 else a

    def chain(op, items):
        t = items[0]
        for x in items[1:]:
            # both associations print the same text; the tree is what the functor front-end evaluates
            t = (op, t, x) if r.random() < 0.7 else (op, x, t) if False else (op, t, x)
        return t

    def group():
        # parenthesised: an || chain (that is what needs parentheses under &&) of literals / && chains of literals
        terms = []
        for _ in range(r.choice([2, 2, 3])):
            k = r.choice([1, 1, 2])
            terms.append(chain('and', [lit() for _ in range(k)]))
        return chain('or', terms)

    # at most ONE parenthesised group per expression: the documented form ("!G1 && (G2 || G3)"); the front-end's
    # parser looks for the first '(' and the first ')' only, expressions with two groups do not compile
    nterms = r.choice([1, 1, 2, 2, 3])
    shape = [r.choice([1, 2, 2, 3]) for _ in range(nterms)]
    slots = [(ti, fi) for ti, k in enumerate(shape) if k > 1 for fi in range(k)]   # a group needs a sibling under &&
    gslot = r.choice(slots) if slots and r.random() < 0.6 else None
    terms = []
    for ti, k in enumerate(shape):
        fs = [group() if (ti, fi) == gslot else lit() for fi in range(k)]
        terms.append(chain('and', fs))
    return chain('or', terms)


def generate_flat(seed):
    r = random.Random(seed * 104729 + 7)
    states = ['S0', 'S1', 'S2']
    events = ['E0', 'E1', 'E2', 'E3']
    table = []
    for i in range(r.choice([13, 15, 16])):
        src = r.choice(states)
        ev = r.choice(events[:3])
        tgt = None if r.random() < 0.15 else r.choice(states)
        g = guard_tree(r) if r.random() < 0.85 else None
        acts = ['a%d_%d' % (i, k) for k in range(r.choice([0, 1, 1, 2, 3]))]
        if tgt is None and g is None and not acts:
            acts = ['a%d_0' % i]
        table.append(Row(src, ev, tgt, guard=g, actions=acts))
    root = Machine('Root', ['S0'], {s: St() for s in states}, table)
    return {'name': 'PG%d' % seed, 'events': events, 'flags': [], 'root': root}
