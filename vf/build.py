"""Build cache (DESIGN.md 2.6): binaries keyed by the content of /repo/include, the
generated source, the runtime headers and the compile line, so every check rebuilds from
the current working tree and an unchanged tree reuses binaries."""
import hashlib
import os
import subprocess
import sys
import fcntl
import time
from concurrent.futures import ThreadPoolExecutor

VERIF = os.path.dirname(os.path.dirname(os.path.abspath(__file__)))
REPO = os.environ.get('VF_REPO', '/repo')
OUT = os.path.join(VERIF, 'out')
CACHE = os.environ.get('VF_CACHE') or os.path.join(OUT, 'cache')      # VF_CACHE: scratch cache for throw-away trees (tools/mutate.py)
RT = os.path.join(VERIF, 'rt')
GUARD = 'BOOSTORG_MSM_VERIF'

CONFIGS = ['b', 'bc', 'bq', 'b11', 'mf', 'mp', 'mc']
FAMILY = {'b': 'BACK', 'bc': 'BACK', 'bq': 'BACK', 'b11': 'BACK11', 'mf': 'MP11', 'mp': 'MP11', 'mc': 'MP11'}
FAMNAME = {'b': 'back', 'bc': 'back', 'bq': 'back', 'b11': 'back11', 'mf': 'backmp11', 'mp': 'backmp11', 'mc': 'backmp11'}

MODES = {
    # behavioural monitors: fast compile
    'plain': ('clang++-14', ['-O0']),
    # sanitizers: one family per build
    'asan': ('clang++-14', ['-O1', '-gline-tables-only', '-fno-omit-frame-pointer',
                            '-fsanitize=address,undefined', '-fno-sanitize=function,object-size,vptr',
                            '-fno-sanitize-recover=all']),
    # valgrind memcheck needs -O0 (see DESIGN D4)
    'vg': ('clang++-14', ['-O0', '-g', '-gdwarf-4']),
    'gcc': ('g++', ['-O0']),
    'gcc_zero': ('g++', ['-O1', '-ftrivial-auto-var-init=zero']),
    'gcc_pattern': ('g++', ['-O1', '-ftrivial-auto-var-init=pattern']),
}

_repo_hash = None


def _hash_tree(root, h):
    for dp, dn, fn in os.walk(root):
        dn.sort()
        for f in sorted(fn):
            p = os.path.join(dp, f)
            h.update(p[len(root):].encode())
            with open(p, 'rb') as fh:
                h.update(fh.read())


def repo_hash():
    global _repo_hash
    if _repo_hash is None:
        h = hashlib.sha256()
        _hash_tree(os.path.join(REPO, 'include'), h)
        _hash_tree(RT, h)
        _repo_hash = h.hexdigest()
    return _repo_hash


def compile_line(cfg, mode, switch=0, extra=()):
    cc, flags = MODES[mode]
    line = [cc, '-std=c++20', '-w', '-I' + os.path.join(REPO, 'include'), '-I' + RT,
            '-D' + GUARD, '-DVF_FAM_' + FAMILY[cfg], '-DVF_CFG_' + cfg, '-DVF_SWITCH=%d' % switch,
            '-DFUSION_MAX_VECTOR_SIZE=20']
    line += flags
    line += list(extra)
    return line


def build(name, src, cfg, mode='plain', switch=0, extra=(), libs=()):
    """Compile src for cfg; returns (binary path or None, error text)."""
    line = compile_line(cfg, mode, switch, extra)
    key = hashlib.sha256(('\0'.join([repo_hash(), src] + line + list(libs))).encode()).hexdigest()[:24]
    d = os.path.join(CACHE, key)
    binp = os.path.join(d, 'bin')
    if os.path.exists(binp):
        try:
            os.utime(d)
        except OSError:
            pass
        return binp, ''
    os.makedirs(d, exist_ok=True)
    lock = open(os.path.join(d, 'lock'), 'w')
    fcntl.flock(lock, fcntl.LOCK_EX)
    try:
        if os.path.exists(binp):
            return binp, ''
        srcp = os.path.join(d, '%s_%s.cpp' % (name, cfg))
        with open(srcp, 'w') as f:
            f.write(src)
        tmp = binp + '.tmp'
        p = subprocess.run(line + [srcp, '-o', tmp] + list(libs), stdout=subprocess.PIPE,
                           stderr=subprocess.STDOUT, text=True)
        if p.returncode != 0:
            err = p.stdout
            with open(os.path.join(d, 'error.txt'), 'w') as f:
                f.write(' '.join(line) + '\n' + err)
            return None, err[-6000:]
        os.rename(tmp, binp)
        return binp, ''
    finally:
        fcntl.flock(lock, fcntl.LOCK_UN)
        lock.close()


def build_many(jobs, workers=None):
    """jobs: list of dict(name, src, cfg, mode, switch, extra, libs). Returns list of (job, bin, err)."""
    workers = workers or min(16, (os.cpu_count() or 4))

    def one(j):
        b, e = build(j['name'], j['src'], j['cfg'], j.get('mode', 'plain'), j.get('switch', 0),
                     j.get('extra', ()), j.get('libs', ()))
        return (j, b, e)
    with ThreadPoolExecutor(max_workers=workers) as ex:
        return list(ex.map(one, jobs))


def prune_cache(max_entries=600):
    """Keep the cache bounded (disk is limited): drop least recently used entries."""
    try:
        ents = [(os.path.getmtime(os.path.join(CACHE, e)), e) for e in os.listdir(CACHE)]
    except OSError:
        return
    ents.sort()
    import shutil
    for _, e in ents[:-max_entries] if len(ents) > max_entries else []:
        shutil.rmtree(os.path.join(CACHE, e), ignore_errors=True)
