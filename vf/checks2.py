"""Checks built on the model-free monitors and on the switch-policy builds: C03, C17, C19."""
import json
import os

from . import build, engine, run, checks

FXR = dict(effects=0.3, enqueue=0.2, restart=0.1)
PLAINR = dict(restart=0.15)

LEDGER_PROFILES = {
    'C03': [(['m01', 'm02', 'm03', 'm04', 'm05', 'm06', 'm07', 'm08', 'm10', 'm11', 'm12', 'm13', 'm17'], FXR, 60, 600),
            (['m01', 'm03', 'm04', 'm05', 'm10'], PLAINR, 80, 800),
            (['m19'], PLAINR, 150, 1500)],      # the outermost machine itself has a history policy; stop / start again
    'C17': [(['m08', 'm10'], FXR, 250, 2500),
            (['m08', 'm10'], dict(reads=True, effects=0.2), 150, 1500),
            (['m21'], FXR, 150, 1500)],         # three regions of simple states: the AND form over every region
}
LRULES = {
    'C03': 'distinct full active configurations (tuple of active states at every active level) seen at quiescent points, x introspection API (ids, is_state_active, visitors), plus start/stop classes',
    'C17': 'distinct (level, configuration, flag, operator, truth value) at quiescent points and distinct in-callback (callback kind, configuration, flag vector) reads',
}


def report(prop, ev, violations, harness_problems, known, known_hits, tier, floor_q=10, floor_t=20):
    ev.violations = len(violations)
    ev.write()
    for kid, n in known_hits.items():
        k = [x for x in known['known'] if x['id'] == kid][0]
        print('KNOWN-FINDING: property=%s %s (%d runs)' % (prop, k['what'], n))
    if harness_problems:
        for hp in harness_problems[:5]:
            print('HARNESS problem: %s' % (hp,))
        return 2
    seen = set()
    for rp, m, cfg, rule, exp, got in violations:
        key = (m, build.FAMNAME.get(cfg, cfg), rule, str(exp)[:60])
        if key in seen:
            continue
        seen.add(key)
        print('VIOLATION property=%s replay=%s' % (prop, rp))
        print('  machine=%s cfg=%s rule=%s expected=%s got=%s' % (m, cfg, rule, str(exp)[:200], str(got)[:200]))
        if len(seen) >= 12:
            break
    print('%s %s: %d evaluations, %d violations, %d distinct non-trivial classes' % (
        prop, tier, ev.evaluations, len(violations), len(ev.distinct)))
    if violations:
        return 1
    floor = floor_q if tier == 'quick' else floor_t
    if len(ev.distinct) < floor:
        print('INCONCLUSIVE: coverage floor not reached (%d < %d)' % (len(ev.distinct), floor))
        return 2
    return 0


def run_ledger_check(prop, tier, seed):
    ev = engine.Evidence(prop, tier, seed)
    ev.rule = LRULES[prop]
    ev.assumptions = ['exception-free scripts only (runs with an injected throw are skipped by this monitor)',
                      'the ledger is rebuilt from observed on_entry / on_exit records only; expected state ids follow the documented numbering computed from the machine definition',
                      'machine definitions are sampled (curated corpus + seeded generated machines)']
    known = engine.load_known()
    hs = {}
    profiles = list(LEDGER_PROFILES[prop])
    if prop == 'C03':
        profiles.append((checks.gen_machines(tier, seed), FXR, 60, 400))
    if prop == 'C17':
        profiles.append((checks.gen_machines(tier, seed), FXR, 100, 400))      # generated machines carry flags at every depth
    for machines, kw, nq, nt in profiles:
        for m in machines:
            if m not in hs:
                hs[m] = engine.Harness(m)
    errs = engine.build_harnesses(list(hs.values()))
    if errs:
        print('HARNESS build failure:\n' + '\n'.join(errs)[:4000])
        return 2
    violations, harness_problems, known_hits = [], [], {}
    snaps = 0
    skipped = 0
    idmap_checked = 0
    for machines, kw, nq, nt in profiles:
        n = nq if tier == 'quick' else nt
        for m in machines:
            h = hs[m]
            scripts = checks.scripts_for(h, seed, n, kw)
            res = run.run_matrix(h.bins, scripts)
            verdicts = engine.accept_all(h, res)
            for cfg in h.cfgs:
                # documented state numbering and get_state_by_id (static part of C03)
                if prop == 'C03':
                    ids, chk = run.parse_idmap(res[cfg][0].header)
                    for mm in h.ixs[cfg].order:
                        idmap_checked += 1
                        if ids.get(mm['name']) != mm['_ids']:
                            rp = engine.write_replay(prop, {'kind': 'model', 'property': prop, 'machine': m, 'cfg': cfg, 'switch': 0,
                                                            'script': 'S', 'rule': 'state-id-numbering',
                                                            'expected': mm['_ids'], 'got': ids.get(mm['name'])})
                            violations.append((rp, m, cfg, 'state-id-numbering', mm['_ids'], ids.get(mm['name'])))
                    if any(v != 'ok' for v in chk.values()):
                        rp = engine.write_replay(prop, {'kind': 'model', 'property': prop, 'machine': m, 'cfg': cfg, 'switch': 0,
                                                        'script': 'S', 'rule': 'get-state-by-id', 'expected': 'ok', 'got': chk})
                        violations.append((rp, m, cfg, 'get-state-by-id', 'ok', chk))
                    ev.distinct.add((m, cfg, 'idmap'))
                for i, v in enumerate(verdicts[cfg]):
                    ev.evaluations += 1
                    lv = v['ledger']
                    snaps += lv.get('snaps', 0)
                    for key in lv['cov'].get(prop, []):
                        ev.distinct.add((m, build.FAMNAME[cfg], json.dumps(key, default=str)))
                    for key in v['cov'].get(prop, []):       # in-callback reads come from the acceptor
                        ev.distinct.add((m, build.FAMNAME[cfg], 'm', json.dumps(key, default=str)))
                    cands = []
                    if not lv['ok']:
                        cands.append(lv)
                    if not v['ok'] and prop in v.get('tags', []):
                        cands.append(v)
                    if lv.get('status', '') and str(lv.get('status')).startswith('skipped'):
                        skipped += 1
                    if lv['ok'] and len(ev.samples) < 3 and i == 1:
                        ev.samples.append({'machine': m, 'cfg': cfg, 'script': scripts[i][:500],
                                           'observed_trace_head': engine.short_trace(res[cfg][i].recs, 0, 20)})
                    for c in cands:
                        tags = set(c['tags'])
                        if 'HARNESS' in tags:
                            harness_problems.append((m, cfg, c['rule'], c['got'][:300]))
                            continue
                        if prop not in tags:
                            continue
                        sig = '%s|%s|%s' % (m, c['expected'][:120], c['got'][:120])
                        k = engine.match_known(known, prop, build.FAMNAME[cfg], c['rule'], sig)
                        if k:
                            known_hits[k['id']] = known_hits.get(k['id'], 0) + 1
                            continue
                        rp = engine.write_replay(prop, {'kind': 'model', 'property': prop, 'machine': m, 'cfg': cfg, 'switch': 0,
                                                        'script': scripts[i], 'rule': c['rule'], 'tags': sorted(tags),
                                                        'expected': c['expected'], 'got': c['got'], 'pos': c['pos'],
                                                        'window': engine.short_trace(res[cfg][i].recs, max(0, c['pos'] - 12), 20)})
                        violations.append((rp, m, cfg, c['rule'], c['expected'], c['got']))
    ev.extra.update({'quiescent_points_checked': snaps, 'runs_skipped_by_ledger': skipped, 'idmaps_checked': idmap_checked,
                     'known_finding_hits': known_hits})
    return report(prop, ev, violations, harness_problems, known, known_hits, tier, 20, 40)


# ---------------------------------------------------------------------- C19
C19_MACHINES = ['m01', 'm03', 'm05', 'm08', 'm10']
C19_CFGS = ['b', 'b11', 'mf']


def strip_reads(raw):
    out = []
    for tok in raw.split(' '):
        if tok.startswith('cs=') or tok.startswith('fl='):
            continue
        out.append(tok)
    return ' '.join(out)


def run_c19(tier, seed):
    prop = 'C19'
    ev = engine.Evidence(prop, tier, seed)
    ev.rule = ('distinct (policy, callback kind, root level?) in-callback reads accepted and (policy, source is submachine, target is '
               'submachine) transitions observed; plus scripts whose read-stripped traces were compared across the four policy builds')
    ev.assumptions = ['in-callback reads are current_state()/get_active_state_ids() and OR flags of the Fsm& argument of the callback',
                      'exception-free scripts for the cross-policy comparison']
    known = engine.load_known()
    n = 60 if tier == 'quick' else 600
    cfgs = C19_CFGS if tier == 'quick' else ['b', 'bc', 'b11', 'mf', 'mp', 'mc']
    hs = {}
    for m in C19_MACHINES:
        for sw in range(4):
            hs[(m, sw)] = engine.Harness(m, cfgs, switch=sw)
    errs = engine.build_harnesses(list(hs.values()))
    if errs:
        print('HARNESS build failure:\n' + '\n'.join(errs)[:4000])
        return 2
    violations, harness_problems, known_hits = [], [], {}
    compared = 0
    for m in C19_MACHINES:
        h0 = hs[(m, 0)]
        # submissions from inside a transition are judged by the in-transition configuration (blocking
        # flags), which legitimately depends on the policy: machines with blocking states get none
        has_block = any(s['kind'] in ('terminate', 'interrupt') for mm in h0.ixs[h0.cfgs[0]].order for s in mm['states'].values())
        scripts = checks.scripts_for(h0, seed, n, dict(reads=True, enqueue=0.1) if has_block else dict(reads=True, effects=0.2, enqueue=0.1))
        scripts_f = checks.scripts_for(h0, seed + 7, n // 2, dict(reads=True, effects=0.1, fail=0.3))
        traces = {}
        for sw in range(4):
            h = hs[(m, sw)]
            for part, scr in (('plain', scripts), ('fail', scripts_f)):
                res = run.run_matrix(h.bins, scr)
                verdicts = engine.accept_all(h, res)
                for cfg in h.cfgs:
                    for i, v in enumerate(verdicts[cfg]):
                        ev.evaluations += 1
                        for key in v['cov'].get(prop, []):
                            ev.distinct.add((m, build.FAMNAME[cfg], json.dumps(key, default=str)))
                        if part == 'plain':
                            traces[(sw, cfg, i)] = [strip_reads(x.raw) for x in res[cfg][i].recs]
                        if v['ok']:
                            if len(ev.samples) < 3 and i == 0 and sw in (1, 3):
                                ev.samples.append({'machine': m, 'cfg': cfg, 'policy': sw, 'script': scr[i][:400],
                                                   'observed_trace_head': engine.short_trace(res[cfg][i].recs, 0, 25)})
                            continue
                        tags = set(v['tags'])
                        if 'HARNESS' in tags:
                            harness_problems.append((m, cfg, sw, v['rule'], v['got'][:300]))
                            continue
                        if prop not in tags:
                            continue
                        sig = '%s|%s|%s' % (m, v['expected'][:120], v['got'][:120])
                        k = engine.match_known(known, prop, build.FAMNAME[cfg], v['rule'], sig)
                        if k:
                            known_hits[k['id']] = known_hits.get(k['id'], 0) + 1
                            continue
                        rp = engine.write_replay(prop, {'kind': 'model', 'property': prop, 'machine': m, 'cfg': cfg, 'switch': sw,
                                                        'script': scr[i], 'rule': v['rule'], 'tags': sorted(tags),
                                                        'expected': v['expected'], 'got': v['got'], 'pos': v['pos'],
                                                        'window': engine.short_trace(res[cfg][i].recs, max(0, v['pos'] - 12), 20)})
                        violations.append((rp, m, cfg, v['rule'], v['expected'], v['got']))
        # outside transitions the policies are indistinguishable: identical traces once the in-callback reads are removed
        for cfg in cfgs:
            for i in range(len(scripts)):
                base = traces.get((0, cfg, i))
                for sw in (1, 2, 3):
                    other = traces.get((sw, cfg, i))
                    compared += 1
                    if base != other:
                        j = 0
                        while j < min(len(base), len(other)) and base[j] == other[j]:
                            j += 1
                        rp = engine.write_replay(prop, {'kind': 'model', 'property': prop, 'machine': m, 'cfg': cfg, 'switch': sw,
                                                        'script': scripts[i], 'rule': 'policy-differential',
                                                        'expected': (base[j] if j < len(base) else 'END'),
                                                        'got': (other[j] if j < len(other) else 'END'), 'pos': j})
                        violations.append((rp, m, cfg, 'policy-differential', base[j] if j < len(base) else 'END',
                                           other[j] if j < len(other) else 'END'))
                ev.distinct.add((m, cfg, 'diff', i % 8))
    ev.extra.update({'cross_policy_trace_pairs_compared': compared, 'known_finding_hits': known_hits})
    return report(prop, ev, violations, harness_problems, known, known_hits, tier, 20, 40)


def setup():
    hs = [engine.Harness(m, C19_CFGS, switch=sw) for m in C19_MACHINES for sw in range(4)]
    for prop in LEDGER_PROFILES:
        for machines, kw, nq, nt in LEDGER_PROFILES[prop]:
            hs += [engine.Harness(m) for m in machines]
    return engine.build_harnesses(hs)
