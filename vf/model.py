"""Reference semantics as an *acceptor* over observed traces (DESIGN.md 2.3, Appendix D).

The synchronous part of the semantics (one occurrence dispatched to one machine instance:
regions, candidates, guards, cascades, hierarchy, history, pseudo states, exceptions, switch
policy) is predicted exactly.  The asynchronous part (which pending occurrence is dispatched
next) is monitored: the observed next record selects the occurrence, the acceptor checks
that the choice is permitted by the ordering rules of C04 / C05 / C10.

Every expectation carries the ids of the properties whose statement demands it; a mismatch
raises Reject(tags, ...).
"""
from .spec import Index

T, GR, DF = 1, 2, 4      # result bits: handled, guard reject, deferred


class Reject(Exception):
    def __init__(self, tags, rule, expected, got, pos):
        Exception.__init__(self, '%s %s: expected %s, got %s at %d' % (sorted(tags), rule, expected, got, pos))
        self.tags = set(tags)
        self.rule = rule
        self.expected = expected
        self.got = got
        self.pos = pos


class RoundAbort(Exception):
    """back / back11: an exception left the dispatch of the completion event before the model's current
    region was reached (thrown by a retried guard of an earlier region)"""


class ModelThrow(Exception):
    def __init__(self, seq):
        Exception.__init__(self, 'throw %d' % seq)
        self.seq = seq


class Occ:
    __slots__ = ('typ', 'id', 'seq', 'free', 'offered_epoch', 'eligible_at', 'api', 'dispatched')

    def __init__(self, typ, id_, seq, api='p'):
        self.typ = typ
        self.id = id_
        self.seq = seq            # global submission counter value
        self.free = False         # exempt from FIFO checks (entry-point continuation)
        self.offered_epoch = -1
        self.eligible_at = None
        self.api = api
        self.dispatched = 0

    def key(self):
        return (self.typ, self.id)

    def __repr__(self):
        return '%s:%d' % (self.typ, self.id)


class MI:
    """machine instance"""

    def __init__(self, ix, m, parent):
        self.ix = ix
        self.m = m
        self.name = m['name']
        self.parent = parent
        self.children = {}
        for sn, s in m['states'].items():
            if s['kind'] == 'sub':
                self.children[sn] = MI(ix, s['machine'], self)
        n = len(m['regions'])
        self.n = n
        self.active = list(m['regions'])
        self.hist = list(m['regions'])
        self.running = False
        self.processing = False
        self.queue = []
        self.deferred = []
        self.comp = []            # regions with a completion evaluation pending (backmp11: per entered state)
        self.epoch = 0            # configuration epoch (any external transition at or below this level)
        self.epoch_seq = 0        # submission counter value at the last configuration change
        self.blocked_swallow = 0
        self.cg_seen = {}
        self.comp_aborted = set()
        rows = list(m['table'])
        self.has_completion = any(r['ev'] is None for r in rows)
        self.has_blocking = any(s['kind'] in ('terminate', 'interrupt') for s in m['states'].values())

    def root(self):
        x = self
        while x.parent:
            x = x.parent
        return x

    def all(self):
        yield self
        for c in self.children.values():
            for x in c.all():
                yield x

    def is_active_instance(self):
        """is this machine instance part of the active configuration?"""
        if not self.parent:
            return self.running
        return self.parent.is_active_instance() and self.name in self.parent.active and self.running

    def kind(self, sn):
        return self.m['states'][sn]['kind']


class Acceptor:
    def __init__(self, spec, cfg, switch=0, ix=None):
        self.spec = spec
        self.cfg = cfg
        self.fam = {'b': 'back', 'bc': 'back', 'bq': 'back', 'b11': 'back11'}.get(cfg, 'mp11')
        self.ix = ix or Index(spec, self.fam if self.fam != 'mp11' else 'backmp11')
        self.mp = self.fam == 'mp11'
        self.switch = switch
        self.cov = {}
        self.counts = {'records': 0, 'steps': 0, 'transitions': 0, 'ops': 0}
        self.inst = {}
        self.recs = []
        self.pos = 0
        self.gseq = 0
        self.gmask = None
        self.cur_tag = 'A'
        self.events = list(spec['events'])
        self.stack = []            # machines currently inside a step (for diagnostics)
        self.dispatched_keys = set()
        self.tolerate = set()      # rule ids that are reported but do not abort (known findings mode)
        self.threw = False
        self.in_round = None
        self.sched_stack = []       # machines whose scheduling point is being executed (outermost first)
        self.ledger_errors = []
        self.in_entry_of = None
        self.zoo_stats = None
        self.weak = False
        self.weak_pending = False
        self.weak_prev = {}
        self.weak_grow = {}
        self.gsite_by_name = {g['name']: g for g in self.ix.gsites}
        # entry / exit pseudo states (C09): their sites
        self.pseudo_sites = set()
        for m in self.ix.order:
            for sn, st in m['states'].items():
                if st['kind'] in ('entry_pt', 'exit_pt'):
                    self.pseudo_sites.add('%s.%s' % (m['name'], sn))
        # rows whose source is an exit pseudo state (C09): their sites
        self.exit_row_sites = set()
        for m in self.ix.order:
            for row in m['table']:
                if isinstance(row['src'], tuple) and row.get('_site'):
                    self.exit_row_sites.add(row['_site'])

    # ------------------------------------------------------------------ coverage
    def hit(self, prop, key):
        self.cov.setdefault(prop, set()).add(key)

    # ------------------------------------------------------------------ trace access
    def peek(self):
        # instance-ledger complaints of the event zoo (C20) are collected and reported at the end of the run
        while self.pos < len(self.recs) and self.recs[self.pos].k == 'LEDGER':
            self.ledger_errors.append(self.recs[self.pos].raw)
            self.pos += 1
        # is_event_deferred predicate calls (backmp11) are reads: transparent, but validated
        while self.pos < len(self.recs) and self.recs[self.pos].k == 'DF':
            r = self.recs[self.pos]
            mname, sname = r.site.split('.')
            st = self.ix.machines[mname]['states'][sname]
            ev = self.norm_ev(r)
            if ev is not None and ev.startswith('any/'):
                ev = ev[4:]
            bad = ev not in st['deferred'] or st.get('defer_atom') is None
            if not bad and self.gmask is not None and r.v != ((self.gmask >> (st['defer_atom'] & 63)) & 1):
                bad = True
            if bad:
                raise Reject({'C05'}, 'deferral-predicate', 'predicate of a state deferring the event', r.raw, self.pos)
            self.hit('C05', ('predicate', r.site, r.ev, r.v))
            self.pos += 1
            self.counts['records'] += 1
        return self.recs[self.pos] if self.pos < len(self.recs) else None

    def take(self):
        r = self.recs[self.pos]
        self.pos += 1
        self.counts['records'] += 1
        return r

    def reject(self, tags, rule, expected, got=None):
        if got is None:
            got = self.peek()
        tags = set(tags)
        if self.in_round is not None:
            tags.add('C10')         # the expectation belongs to a completion step (fires on entry, chain runs on)
        if self.threw:
            tags.add('C12')         # first divergence after a contained exception in this operation: the state it left behind
        if got is not None and self.pseudo_sites:
            if got.k in ('EN', 'EX') and got.site in self.pseudo_sites:
                tags.add('C09')     # a pseudo state entered / left where the statement does not allow it
            elif got.k == 'SNAP':
                vis = [x for x in got.raw.split(' ') if x.startswith('VIS=')]
                shown = set(vis[0][4:].split(',')) if vis else set()
                active = set()
                for root in self.inst.values():
                    for mi in root.all():
                        if mi.is_active_instance():
                            active.update('%s.%s' % (mi.name, a) for a in mi.active if a)
                if (shown & self.pseudo_sites) - active:
                    tags.add('C09')     # a pseudo state is shown active at quiescence that should have been left
        # classify re-entrancy / duplicate dispatch: the unexpected record belongs to an occurrence
        # that is pending on a machine that is still inside a step, or that was already dispatched
        if got is not None and getattr(got, 'id', -1) >= 0 and got.k in ('G', 'A', 'EN', 'EX', 'NT'):
            for root in self.inst.values():
                for mi in root.all():
                    for o in mi.queue:
                        if o.id == got.id and mi.processing:
                            tags.add('C04')
                            rule += '+reentrant'
        pend = []
        for tag, root in self.inst.items():
            for mi in root.all():
                if mi.queue or mi.deferred or mi.comp:
                    pend.append('%s:%s q=%s d=%s c=%s act=%s' % (tag, mi.name, mi.queue, mi.deferred, mi.comp, mi.active))
        rej = Reject(tags, rule, expected, got.raw if got is not None else 'END', self.pos)
        rej.pending = pend
        raise rej

    def norm_ev(self, rec):
        ev = rec.ev
        if ev is None:
            return ev
        if rec.k in ('NT', 'XC') and self.cfg == 'mc' and ev.startswith('any/'):
            ev = ev[4:]
        return ev

    def skip_completion_retries(self):
        """back / back11 re-evaluate the guards of completion rows of states that stay active after every
        handled event (also through forwarding of the completion event into active submachines); the
        guard values are fixed per entry of the source state, so such a re-evaluation is always false
        and changes nothing (C10 quantifier).  Those records are transparent."""
        if self.mp:
            return
        while True:
            got = self.peek()
            if got is None or got.ev != 'none' or got.k not in ('G', 'EX'):
                return
            if True:
                # a completion step that was aborted by an exception is offered again when an enclosing
                # machine forwards its own completion event (back / back11 with forwarding rows): the
                # source state is still active and its transition has not completed since it was entered
                if got.k == 'EX':
                    parts = got.site.split('.')
                else:
                    parts = (self.gsite_by_name.get(got.site) or {}).get('cg_src')
                    parts = parts.split('.') if parts else ['', '']
                mname, sname = parts[0], parts[1]
                root = self.inst.get(self.cur_tag)
                mi = self.find_instance(root, mname) if root and mname else None
                if mi is not None and sname in mi.active and mi.processing and sname in mi.comp_aborted:
                    return          # belongs to the completion event that machine sends once its step is over
                if mi is not None and sname in mi.active and not mi.processing and sname in mi.comp_aborted:
                    # the completion event reaches every region in order: all aborted states are offered
                    mi.comp = sorted((mi.active.index(x), x) for x in mi.comp_aborted if x in mi.active)
                    mi.comp_aborted.clear()
                    self.counts['completion_reoffered'] = self.counts.get('completion_reoffered', 0) + 1
                    # offered by the completion event of an enclosing machine that is at its scheduling point:
                    # that machine is busy dispatching it
                    busy = []
                    x = mi.parent
                    while x is not None:
                        if x in self.sched_stack and not x.processing:
                            x.processing = True
                            busy.append(x)
                        x = x.parent
                    try:
                        self.schedule(mi)
                    finally:
                        for x in busy:
                            x.processing = False
                    continue
            if got.k != 'G' or got.v != 0:
                return
            gs = self.gsite_by_name.get(got.site)
            if gs is None or gs['cg_src'] is None:
                return
            mname, sname = gs['cg_src'].split('.')
            root = self.inst.get(self.cur_tag)
            mi = self.find_instance(root, mname) if root else None
            if mi is None or sname not in mi.active:
                return
            if got.v != 0 or not self.was_evaluated(mi, sname, got.site):
                return
            self.counts['completion_retries'] = self.counts.get('completion_retries', 0) + 1
            self.take()
            # effects / failpoint attached to the re-evaluation; the guard runs inside the dispatch of a
            # completion event, so calls made from it (or from exception_caught) find the machine busy
            was = mi.processing
            qlen = len(mi.queue)
            mi.processing = True
            # a completion event forwarded by an enclosing machine: that machine is busy dispatching it
            busy = []
            x = mi.parent
            while x is not None:
                if x in self.sched_stack and not x.processing:
                    x.processing = True
                    busy.append(x)
                x = x.parent
            try:
                self.after_cb('G', got.site, mi)
            except ModelThrow as t:
                self.expect_cb('XC', mi.name, mi, 'none', -1, {'C12'}, 'exception-caught', v=t.seq)
                self.after_cb('C', mi.name, mi)
                self.threw = True
                if was and self.in_round is mi:
                    # the retried guard belongs to the completion event this machine is dispatching right
                    # now: the exception aborts that dispatch, the regions after it are not reached
                    raise RoundAbort()
            finally:
                mi.processing = was
                for x in busy:
                    x.processing = False
            if not was and len(mi.queue) > qlen and getattr(mi, 'sched_allow', True):
                self.schedule(mi)

    def was_evaluated(self, mi, sname, gsite):
        return gsite in mi.cg_seen.get(sname, ())

    def find_instance(self, root, mname):
        for x in root.all():
            if x.name == mname:
                return x
        return None

    def expect_cb(self, kind, site, mi, label, id_, tags, rule, v=None, own_entry=False):
        got = self.peek()
        if got is not None and got.k == 'G' and got.site != site:
            self.skip_completion_retries()
            got = self.peek()
        if got is None or got.k != kind or got.site != site:
            if got is not None and got.k in ('G', 'A') and got.site.rsplit('.', 1)[0] in self.exit_row_sites:
                tags = set(tags) | {'C09'}      # a row leaving an exit pseudo state ran where it was not expected
            if got is not None and mi is not None and got.k in ('G', 'A', 'EX') and got.m is not None:
                gm = got.m.split(':')[-1]
                if gm in self.ix.depth and self.ix.depth[gm] < self.ix.depth[mi.name]:
                    tags = set(tags) | {'C07'}      # an outer level acts where the inner level was to be asked first
            if got is not None and got.k == 'NT' and kind != 'NT':
                tags = set(tags) | {'C06'}      # no_transition although something matched (C06 'exactly when')
                if mi is not None and got.m.split(':')[-1] != mi.name:
                    tags |= {'C07'}             # ... and the match lies in a deeper machine: not forwarded
            self.reject(tags, rule, '%s %s %s:%s' % (kind, site, label, id_), got)
        ev = self.norm_ev(got)
        if own_entry and ev is not None and ev.startswith('W/'):
            ev = ev[2:]           # the submachine's own entry may see the direct-entry wrapper (Appendix B)
        mlabel = '%s:%s' % (self.cur_tag, mi.name) if mi is not None else None
        if mi is not None and got.m != mlabel:
            self.reject(tags | {'C15'} if got.m[0] != self.cur_tag else tags, rule + '/machine', '%s on %s' % (site, mlabel), got)
        if label is not None and (ev != label or got.id != id_):
            self.reject(tags | {'C18'}, rule + '/event', '%s %s %s:%s' % (kind, site, label, id_), got)
        if not got.ok:
            self.reject({'C18', 'C20'}, 'payload', 'intact payload', got)
        if v is not None and got.v != v:
            self.reject(tags, rule + '/value', '%s v=%s' % (site, v), got)
        if got.extra and mi is not None:
            self.check_reads(kind, got, mi, own_entry)
        self.take()
        return got

    def check_reads(self, kind, got, mi, own_entry=False):
        """in-callback reads of the Fsm& argument: active ids (C19) and OR flags (C17)"""
        for tok in got.extra:
            if tok.startswith('cs='):
                ids = [int(x) for x in tok[3:].split(',')]
                exp = [self.state_id(mi, sn) for sn in mi.active]
                if ids != exp:
                    self.reject({'C19'}, 'in-callback-active-ids', '%s shows %s under policy %d' % (mi.name, exp, self.switch), got)
                self.hit('C19', (self.switch, kind, mi.name == self.spec['root']['name']))
            elif tok.startswith('fl='):
                # inside a submachine's own on_entry its region ids are not yet set in backmp11 (set in back):
                # what flags show there is outside what C17 states
                amb = [own_entry]
                exp = ''.join('1' if self.shown_flag(mi, f, amb) else '0' for f in self.spec.get('flags', []))
                if not amb[0] and tok[3:] != exp:
                    self.reject({'C17', 'C19'}, 'in-callback-flags', '%s flags %s' % (mi.name, exp), got)
                if not amb[0]:
                    self.hit('C17', ('in-callback', kind, tuple(mi.active), exp))

    def shown_flag(self, mi, f, amb):
        for sn in mi.active:
            st = mi.m['states'][sn]
            if f in st['flags']:
                return True
            if st['kind'] == 'sub':
                c = mi.children[sn]
                if not c.running:
                    amb[0] = True      # a submachine shown as active before it is entered: stale ids, family specific
                    continue
                if self.shown_flag(c, f, amb):
                    return True
        return False

    # harness records that follow a callback record: scripted submissions, failpoint
    def after_cb(self, kind_char, site, fsm):
        while True:
            r = self.peek()
            if r is None:
                return
            if r.k == 'SUB':
                f = r.extra       # site kind api target Ev:id
                if f[0] != site:
                    self.reject({'HARNESS'}, 'sub-site', site, r)
                self.take()
                api, target = f[2], f[3]
                typ, id_ = f[4].split(':')
                typ = self.events[int(typ[1:])]
                tgt = fsm if target == 's' else fsm.root()
                self.hit('C04', ('sub', kind_char, api, target, fsm.ix.depth[fsm.name], len(tgt.queue)))
                self.submit(tgt, typ, int(id_), api)
                nxt = self.peek()
                if nxt is None or nxt.k != 'SUBRET':
                    self.reject({'C04'}, 'nested-submission-not-stored', 'SUBRET', nxt)
                self.take()
                continue
            if r.k == 'THROW':
                self.take()
                raise ModelThrow(int(r.extra[0]))
            return

    # ------------------------------------------------------------------ helpers on specs
    def state_id(self, mi, sn):
        return mi.m['_ids'][sn]

    def trig_matches(self, row_ev, typ):
        if typ == 'none':
            return row_ev is None
        if row_ev is None:
            return False
        if row_ev == 'any':
            return True
        return row_ev in self.ix.ev_bases(typ)

    def label(self, row_ev, occ):
        if row_ev is None:
            return 'none'
        if row_ev == 'any':
            return 'any/' + occ.typ
        return row_ev

    def candidates(self, mi, sn, typ):
        """rows to try for active state sn, in priority order (C01 / C18)"""
        st = mi.m['states'][sn]
        out = []
        for r in reversed(st['internal']):
            if self.trig_matches(r['ev'], typ):
                out.append(r)
        for r in reversed(mi.m['table']):
            if self.ix.row_src_state(r) == sn and self.trig_matches(r['ev'], typ):
                out.append(r)
        return out

    def sm_internal(self, mi, typ):
        return [r for r in reversed(mi.m['internal']) if self.trig_matches(r['ev'], typ)]

    def list_defers(self, mi, typ, recursive):
        """does the active configuration of mi defer typ through deferred_events lists?"""
        if not mi.running:
            return False
        for sn in mi.active:
            st = mi.m['states'][sn]
            if typ in st['deferred']:
                if self.mp and st.get('defer_atom') is not None and self.gmask is not None:
                    if (self.gmask >> (st['defer_atom'] & 63)) & 1:
                        return True
                else:
                    return True
            if recursive and st['kind'] == 'sub' and self.list_defers(mi.children[sn], typ, True):
                return True
        return False

    def held_deferred(self, root, id_):
        """is the occurrence with this id currently retained as deferred somewhere below root?"""
        for mi in root.all():
            if any(o.id == id_ for o in mi.deferred):
                return True
            if self.mp and any(o.id == id_ and self.list_defers(mi, o.typ, True) for o in mi.queue):
                return True
        return False

    def ever_deferrable(self, mi, typ):
        """some active state of mi (recursively) lists typ as deferred, whatever its predicate says now"""
        for sn in mi.active:
            st = mi.m['states'][sn]
            if typ in st['deferred']:
                return True
            if st['kind'] == 'sub' and self.ever_deferrable(mi.children[sn], typ):
                return True
        return False

    def blocked(self, mi, typ):
        """C11: terminate / interrupt; flags are looked up recursively in active submachines"""
        if not mi.has_blocking:
            return None
        term, intr, ends = self.blocking_flags(mi)
        if term:
            return 'terminate'
        if intr and typ not in ends:
            return 'interrupt'
        return None

    def blocking_flags(self, mi):
        term = intr = False
        ends = set()
        for sn in mi.active:
            st = mi.m['states'][sn]
            if st['kind'] == 'terminate':
                term = True
            elif st['kind'] == 'interrupt':
                intr = True
                for e in st['end_events']:
                    ends.add(e)
            elif st['kind'] == 'sub' and mi.children[sn].running:
                t2, i2, e2 = self.blocking_flags(mi.children[sn])
                term |= t2
                intr |= i2
                ends |= e2
        return term, intr, ends

    # ------------------------------------------------------------------ submissions
    def submit(self, mi, typ, id_, api, src='direct'):
        """process_event / enqueue_event on machine instance mi (from a callback or from the script)"""
        self.gseq += 1
        occ = Occ(typ, id_, self.gseq, api)
        if api == 'q':
            mi.queue.append(occ)
            return None
        return self.process(mi, occ, src)

    def process(self, mi, occ, src):
        """process_event_internal: returns result bits, or 'stored' / 'blocked'"""
        b = self.blocked(mi, occ.typ) if occ.typ != 'none' else None
        if b:
            self.hit('C11', (b, occ.typ, src))
            return 'blocked'
        if mi.processing:
            mi.queue.append(occ)
            return 'stored'
        if self.mp and src in ('direct',) and self.list_defers(mi, occ.typ, True):
            self.defer(mi, occ)
            self.hit('C05', ('list-defer', mi.name, tuple(mi.active), occ.typ))
            self.early_defer = True      # backmp11 returns at once: the pool is not processed
            return DF
        res = self.step(mi, occ, src)
        self.post(mi, res, src)
        return res

    def defer(self, mi, occ):
        occ.offered_epoch = mi.epoch
        if self.mp:
            self.gseq += 1
            occ.seq = self.gseq      # the pool keeps arrival order; a re-deferred occurrence is appended again
        mi.deferred.append(occ)

    # ------------------------------------------------------------------ one synchronous step
    def step(self, mi, occ, src):
        self.counts['steps'] += 1
        occ.dispatched += 1
        mi.processing = True
        self.stack.append(mi)
        res = 0
        try:
            consumed_regions = []
            for r in range(mi.n):
                rr = self.region(mi, r, occ)
                consumed_regions.append(rr)
                res |= rr
            if not (res & (T | DF)):
                rows = self.sm_internal(mi, occ.typ)
                if rows:
                    res |= self.chain(mi, None, rows, occ, {'C01'})
            if mi.n > 1 and occ.typ != 'none':
                self.hit('C06', (mi.name, tuple(mi.active), occ.typ, tuple(consumed_regions)))
        except ModelThrow as t:
            self.expect_cb('XC', mi.name, mi, self.exc_label(occ), occ.id, {'C12'}, 'exception-caught', v=t.seq)
            self.after_cb('C', mi.name, mi)
            self.hit('C12', ('caught', mi.name, self.ix.depth[mi.name], occ.typ == 'none'))
            self.threw = True
            res = 0
            # a transition aborted after its source submachine ran its exit cascade leaves that submachine the
            # active state of its region (default policy) with the ids it had: the library goes on forwarding to it
            def revive(m):
                for sn in m.active:
                    if sn and m.kind(sn) == 'sub':
                        c = m.children[sn]
                        if not c.running and all(c.active):
                            c.running = True
                        if c.running:
                            revive(c)
            revive(mi)
            if not self.mp:
                # back / back11 re-offer the deferred queue after a *handled* event only: a step that changed
                # one region's state and was then aborted by an exception in a sibling region leaves the
                # deferred occurrences where they are until the next handled event (outside C05's exception-
                # free quantifier; the configuration left behind is C12's subject)
                x = mi
                while x:
                    for d in x.deferred:
                        d.offered_epoch = x.epoch
                    x = x.parent
            if not self.mp and mi.comp:
                # back / back11 run completion processing only after a handled event: a state entered in an
                # earlier region of the aborted step gets its completion offered with the next handled event
                for r, _sn in mi.comp:
                    if mi.active[r] is not None:
                        mi.comp_aborted.add(mi.active[r])
                mi.comp = []
            mi.processing = False
            self.stack.pop()
            return res
        if res == 0 and occ.typ != 'none' and src != 'sub':
            for r in range(mi.n):
                self.expect_cb('NT', mi.name, mi, self.exc_label(occ), occ.id, {'C06'}, 'no-transition',
                               v=self.state_id(mi, mi.active[r]))
                self.after_cb('T', mi.name, mi)
            self.hit('C06', ('nt', mi.name, mi.n))
        mi.processing = False
        self.stack.pop()
        return res

    def exc_label(self, occ):
        return occ.typ

    def region(self, mi, r, occ):
        sn = mi.active[r]
        st = mi.m['states'][sn]
        res = 0
        if st['kind'] == 'sub':
            child = mi.children[sn]
            sub_relevant = self.sub_knows(child, occ.typ)
            if sub_relevant:
                cr = self.process(child, occ, 'sub')
                if cr == 'blocked':
                    cr = T
                if cr == 'stored':
                    cr = T
                res |= cr
                self.hit('C07', ('sub', self.ix.depth[mi.name], cr & 7, bool(self.candidates(mi, sn, occ.typ))))
                if cr & (T | DF):
                    return res
        rows = self.candidates(mi, sn, occ.typ)
        if not rows:
            if not self.mp and occ.typ in st['deferred'] and occ.typ != 'none':
                self.defer(mi, occ)
                self.hit('C05', ('list-defer', mi.name, sn, occ.typ))
                return res | DF
            return res
        return res | self.chain(mi, r, rows, occ, {'C01'})

    def sub_knows(self, child, typ):
        """does the submachine (recursively) have any row / internal row whose trigger could match typ?"""
        m = child.m
        rows = list(m['table']) + list(m['internal'])
        for s in m['states'].values():
            rows += s['internal']
        if typ == 'none':
            return False           # completion events are never forwarded: each level runs its own rounds
        if self.cfg == 'mc':
            return True            # backmp11 favor_compile_time offers every event to an active submachine
        for r in rows:
            if self.trig_matches(r['ev'], typ):
                return True
        # deferral declared inside the submachine also makes it relevant
        for s in m['states'].values():
            if typ in s['deferred']:
                return True
        for c in child.children.values():
            if self.sub_knows(c, typ):
                return True
        return False

    def chain(self, mi, r, rows, occ, tags):
        res = 0
        nrows = len(rows)
        vals = []
        for row in rows:
            if isinstance(row['src'], tuple):       # exit-point row: candidate only while the exit point is active (C09)
                _, sub, x = row['src']
                child = mi.children[sub]
                if x not in child.active:
                    self.hit('C09', ('exit-row-skipped', sub, x, tuple(child.active)))
                    continue
            v = self.eval_guard(mi, row, occ, tags)
            vals.append(v)
            if not v:
                res |= GR
                continue
            if nrows > 1:
                self.hit('C01', (row['_site'], tuple(vals), nrows))
            self.hit('C18', (mi.name, tuple(rr['ev'] for rr in rows), occ.typ, row['ev']))
            if row['actions'] == 'Defer':
                self.defer(mi, occ)
                self.hit('C05', ('action-defer', row['_site']))
                return DF
            self.take_row(mi, r, row, occ)
            return T
        if nrows > 1:
            self.hit('C01', (rows[0]['_site'], tuple(vals), nrows))
        return res

    def eval_guard(self, mi, row, occ, tags):
        """evaluate the guard expression with C++ short-circuit semantics, consuming observed atom records"""
        sites = iter(row['_gsites'])
        lab = self.label(row['ev'], occ)

        def ev(g):
            if g is None:
                return True
            if isinstance(g, int):
                gs = self.ix.gsites[next(sites)]
                rec = self.expect_cb('G', gs['name'], mi, lab, occ.id, tags | {'C14'} if not isinstance(row['guard'], int) else tags, 'guard')
                if gs['cg_src'] is not None:
                    mi.cg_seen.setdefault(gs['cg_src'].split('.')[1], set()).add(gs['name'])
                if gs['cg_src'] is None and self.gmask is not None and rec.v != ((self.gmask >> (gs['atom'] & 63)) & 1):
                    self.reject({'HARNESS'}, 'guard-value', 'mask bit', rec)
                self.after_cb('G', gs['name'], mi)
                return bool(rec.v)
            if g[0] == 'not':
                return not ev(g[1])
            if g[0] == 'and':
                a = ev(g[1])
                if not a:
                    skip(g[2])
                    return False
                return ev(g[2])
            if g[0] == 'or':
                a = ev(g[1])
                if a:
                    skip(g[2])
                    return True
                return ev(g[2])
            raise ValueError(g)

        def skip(g):
            if g is None:
                return
            if isinstance(g, int):
                next(sites)
                return
            if g[0] == 'not':
                skip(g[1])
            else:
                skip(g[1])
                skip(g[2])
        return ev(row['guard'])

    # ------------------------------------------------------------------ transitions
    def phase_id(self, phase, src, tgt):
        """which state the region shows after the given phase under the configured switch policy (C19)"""
        # policies: 0 after_entry, 1 after_transition_action, 2 after_exit, 3 before_transition
        order = {'guard': 3, 'exit': 2, 'action': 1, 'entry': 0}
        return tgt if self.switch >= order[phase] else src

    def take_row(self, mi, r, row, occ):
        lab = self.label(row['ev'], occ)
        tags = {'C02'}
        if row['tgt'] is None:                      # internal transition: guard + action only
            self.run_actions(mi, row, lab, occ, tags)
            self.hit('C02', ('internal', row['_site']))
            return
        self.counts['transitions'] += 1
        src = self.ix.row_src_state(row)
        tgt = self.ix.row_tgt_state(row)
        if r is None:
            r = mi.active.index(src)
        self.hit('C02', (row['_site'], self.subconfig(mi, src)))
        self.hit('C19', (self.switch, mi.kind(src) == 'sub', mi.kind(tgt) == 'sub'))
        try:
            mi.active[r] = self.phase_id('guard', src, tgt)
            self.exit_state(mi, src, lab, occ, tags)
            mi.active[r] = self.phase_id('exit', src, tgt)
            self.run_actions(mi, row, lab, occ, tags)
            mi.active[r] = self.phase_id('action', src, tgt)
            self.in_entry_of = tgt
            self.enter_state(mi, tgt, lab, occ, tags, row['tgt'])
            self.in_entry_of = None
        except ModelThrow:
            if self.switch == 0 and src == tgt and mi.kind(tgt) == 'sub' and self.in_entry_of == tgt:
                # self-transition on a submachine aborted inside its entry: the region still shows the
                # half-entered submachine (same situation as below)
                self.weak_pending = True
            if self.switch != 0 and (mi.kind(src) == 'sub' or mi.kind(tgt) == 'sub'):
                # a non-default switch policy plus an aborted transition out of / into a submachine leaves a
                # half-exited or never-entered submachine shown as active: continuation is only watched (C12)
                self.weak_pending = True
            raise
        mi.active[r] = tgt
        self.bump_epoch(mi)
        self.note_entered(mi, r, tgt)

    def bump_epoch(self, mi):
        x = mi
        while x:
            x.epoch += 1
            x.epoch_seq = self.gseq
            x = x.parent

    def note_entered(self, mi, r, sn):
        mi.cg_seen.pop(sn, None)
        mi.comp_aborted.discard(sn)
        if mi.kind(sn) != 'sub' and any(self.ix.row_src_state(rw) == sn and rw['ev'] is None for rw in mi.m['table']):
            if self.mp:
                mi.comp.insert(0, (r, sn))
            else:
                mi.comp.append((r, sn))

    def subconfig(self, mi, sn):
        if mi.kind(sn) == 'sub':
            c = mi.children[sn]
            return tuple(self.subconfig(c, x) if c.kind(x) == 'sub' else x for x in c.active)
        return sn

    def run_actions(self, mi, row, lab, occ, tags):
        for idx in row['_asites']:
            site = self.ix.asites[idx]
            self.expect_cb('A', site, mi, lab, occ.id, tags | ({'C14'} if len(row['_asites']) > 1 else set()), 'action')
            self.after_cb('A', site, mi)

    def exit_state(self, mi, sn, lab, occ, tags):
        st = mi.m['states'][sn]
        site = '%s.%s' % (mi.name, sn)
        if st['kind'] == 'sub':
            child = mi.children[sn]
            self.exit_machine(child, lab, occ, tags | {'C07'}, fsm=mi)
        else:
            self.expect_cb('EX', site, mi, lab, occ.id, tags, 'exit')
            self.after_cb('X', site, mi)

    def exit_machine(self, child, lab, occ, tags, fsm):
        """exit cascade of a machine: regions in order (innermost first), then its own exit"""
        for sn in list(child.active):
            self.exit_state(child, sn, lab, occ, tags)
        site = child.m['_site'] if '_site' in child.m else self.machine_site(child)
        self.expect_cb('EX', site, fsm, lab, occ.id, tags, 'exit-machine')
        if not self.mp:
            # back: the machine's own exit behaviour runs first; the history record and the fate of the deferred
            # queue come after it (an exit behaviour that throws leaves both untouched)
            self.after_cb('X', site, fsm)
        child.hist = list(child.active)
        child.running = False
        self.hit('C08', ('exit', child.name, tuple(child.hist)))
        # back: the history policy decides what happens with deferred events on exit
        if not self.mp:
            h = child.m.get('history')
            keep = (h == 'always') or (isinstance(h, list) and lab in h)
            if not keep:
                child.deferred = []
        else:
            self.after_cb('X', site, fsm)

    def machine_site(self, mi):
        if mi.parent:
            return '%s.%s' % (mi.parent.name, mi.name)
        return '.%s' % mi.name

    def enter_state(self, mi, sn, lab, occ, tags, target=None):
        st = mi.m['states'][sn]
        site = '%s.%s' % (mi.name, sn)
        if st['kind'] == 'sub':
            child = mi.children[sn]
            self.enter_machine(child, lab, occ, tags | {'C07'}, fsm=mi, target=target)
            return
        self.expect_cb('EN', site, mi, lab, occ.id, tags, 'entry')
        self.after_cb('N', site, mi)
        if st['kind'] == 'exit_pt':
            # forward the converted event to the root machine (C09); same occurrence id
            root = mi.root()
            self.hit('C09', ('exit-pt', mi.name, sn))
            self.gseq += 1
            conv = Occ(st['event'], occ.id, self.gseq)
            conv.free = True
            if self.mp:
                root.queue.append(conv)
            else:
                self.process(root, conv, 'direct')

    def restore(self, child, lab):
        """C08: configuration a (re-)entered machine starts from"""
        h = child.m.get('history')
        if h == 'always' or (isinstance(h, list) and lab in h):
            return list(child.hist), True
        return list(child.m['regions']), False

    def enter_machine(self, child, lab, occ, tags, fsm, target=None):
        site = self.machine_site(child)
        kind = 'normal'
        named = {}
        if isinstance(target, tuple):
            kind = target[0]
            names = target[2] if kind == 'direct' else [target[2]]
            for n in names:
                named[self.ix.region_of(child.m, n)] = n
        cfg, restored = self.restore(child, lab)
        for r, n in named.items():
            cfg[r] = n
        self.hit('C08', (child.name, 'always' if child.m.get('history') == 'always' else ('shallow' if child.m.get('history') else 'none'),
                         kind, restored, sum(1 for i in range(child.n) if child.hist[i] != child.m['regions'][i]), len(named)))
        if kind != 'normal':
            self.hit('C09', (kind, child.name, tuple(sorted(named.items()))))
        child.running = True
        child.processing = True
        child.active = cfg
        if not self.mp:
            child.comp = []        # back evaluates completion synchronously: nothing can be left from a previous activation
        self.expect_cb('EN', site, fsm, lab, occ.id, tags | ({'C09'} if named else set()), 'entry-machine', own_entry=True)
        try:
            self.after_cb('N', site, fsm)
            if self.mp and not restored and len(named) != child.n:
                # backmp11 resets the pool of a submachine entered without history - after the machine's own on_entry;
                # the reset is part of the history policy's on_entry, which an explicit entry that names every region
                # does not run (what an aborted entry left in the pool is then dispatched by this entry)
                child.queue = []
                child.deferred = []
                child.comp = []
            # full fork in backmp11 enters in the listed order, otherwise region order
            order = range(child.n)
            for r in order:
                self.enter_state(child, cfg[r], lab, occ, tags | ({'C08'} if child.m.get('history') else set()) | ({'C09'} if named else set()))
                self.note_entered(child, r, cfg[r])
        except ModelThrow:
            child.processing = False
            if self.switch != 0:
                # the enclosing region already shows the half-entered submachine: what its inner configuration
                # is from here on is not specified by any property; the rest of the run is only watched for
                # escapes, crashes and a wedged machine (C12)
                self.weak_pending = True
            raise
        child.processing = False
        cont = None
        if kind == 'entry':
            self.gseq += 1
            cont = Occ(occ.typ, occ.id, self.gseq)
            cont.free = True
            if not self.mp:
                child.queue.append(cont)
                cont = None
        self.schedule(child, after_handled=True)
        if cont is not None:
            self.process(child, cont, 'direct')

    # ------------------------------------------------------------------ post-processing of a step
    def post(self, mi, res, src):
        handled = bool(res & T)
        self.schedule(mi, after_handled=handled, src=src)

    def completion_round(self, mi):
        """evaluate pending completion transitions of mi (C10); returns True if one fired.
        backmp11: one occurrence per entered state, each its own step. back / back11: one dispatch of the
        completion event to all regions in order - an exception aborts the whole round (the regions not
        reached are offered again with the next completion event)."""
        fired = False
        none = Occ('none', -1, self.gseq)
        if mi.comp and not self.mp:
            # the completion event reaches every region in order, so states whose completion step was
            # aborted earlier (never evaluated since they were entered) are evaluated by it as well
            live = [(r, s) for r, s in mi.comp if mi.active[r] == s]
            live += [(mi.active.index(x), x) for x in mi.comp_aborted if x in mi.active and (mi.active.index(x), x) not in live]
            mi.comp_aborted.clear()
            mi.comp = sorted(live)
        while mi.comp:
            r, entered = mi.comp.pop(0)
            if mi.active[r] != entered:
                continue            # obsolete: the state was left since (pool survived an aborted entry)
            if self.blocked_completion(mi):
                continue
            rows = self.candidates(mi, mi.active[r], 'none')
            if not rows:
                continue
            mi.processing = True
            self.in_round = mi
            try:
                res = self.chain(mi, r, rows, none, {'C10', 'C01'})
            except RoundAbort:
                res = 0
                mi.comp_aborted.add(entered)
                for r2, e2 in mi.comp:
                    if mi.active[r2] == e2:
                        mi.comp_aborted.add(e2)
                mi.comp = []
            except ModelThrow as t:
                self.expect_cb('XC', mi.name, mi, 'none', -1, {'C12'}, 'exception-caught', v=t.seq)
                self.after_cb('C', mi.name, mi)
                self.threw = True
                res = 0
                if mi.active[r] is not None:
                    mi.comp_aborted.add(mi.active[r])
                if not self.mp:
                    for r2, e2 in mi.comp:
                        if mi.active[r2] == e2:
                            mi.comp_aborted.add(e2)
                    mi.comp = []
            mi.processing = False
            self.in_round = None
            self.hit('C10', (mi.name, mi.active[r], res & 7, len(mi.queue), len(mi.deferred)))
            fired |= bool(res & T)
        return fired

    def blocked_completion(self, mi):
        if not mi.has_blocking:
            return False
        term, intr, ends = self.blocking_flags(mi)
        if self.mp:
            return term or intr
        return term or intr      # back: completion event is never an end-interrupt event

    def pending_ids(self, mi):
        return [o for o in mi.queue] + [o for o in mi.deferred]

    def schedule(self, mi, after_handled=False, src='direct', allow_queue=True):
        """scheduling point of machine instance mi: completion first (C10), then pending occurrences in an
        order permitted by C04 / C05, chosen by the observed trace"""
        if mi.processing:
            return
        mi.sched_op = self.counts['ops']
        self.sched_stack.append(mi)
        prev_allow = getattr(mi, 'sched_allow', True)
        allow_queue = allow_queue and prev_allow         # single-step mode: the message queue is left alone,
        mi.sched_allow = allow_queue                     # also by scheduling points nested in this one
        try:
            self.schedule_loop(mi, after_handled, src, allow_queue)
        finally:
            self.sched_stack.pop()
            mi.sched_allow = prev_allow

    def schedule_loop(self, mi, after_handled, src, allow_queue):
        ab_before = set(mi.comp_aborted)
        self.completion_round(mi)
        guard = 0
        # the scheduling point follows a handled step whose completion event may still re-offer aborted completion
        # steps (trace-driven) - unless the completion round just run here was itself aborted
        just_handled = bool(after_handled) and not (mi.comp_aborted - ab_before)
        while True:
            guard += 1
            if guard > 10000:
                self.reject({'HARNESS'}, 'scheduler-loop', 'progress')
            if not allow_queue:
                self.skip_completion_retries()
                nxt = self.peek()
                cand = self.next_pending(mi, nxt, allow_queue=False) if nxt is not None else None
                if cand is None:
                    return
                kind, occ = cand
                self.check_defer_order(mi, occ)
                mi.deferred.remove(occ)
                self.hit('C05', ('reoffer', mi.name, tuple(mi.active), occ.typ, len(mi.deferred)))
                res = self.step(mi, occ, 'direct')
                self.post_queued(mi, res)
                continue
            # completion steps re-offered by the completion event of a step that was just handled come before the next
            # queued occurrence (C10), also before one whose dispatch leaves no record; without a handled step in
            # between (queue processing right after an aborted completion step) the queue goes on first
            if just_handled:
                before = len(mi.queue)
                self.skip_completion_retries()
                if len(mi.queue) != before:
                    continue
            just_handled = False
            # silently consumed occurrences: blocked machine swallows queued events
            if mi.queue and self.blocked(mi, mi.queue[0].typ):
                self.hit('C11', ('swallow-queued', mi.queue[0].typ))
                mi.queue.pop(0)
                continue
            # back: a queued occurrence whose dispatch leaves no record at all (enqueue_event on a contained
            # machine is not a direct call, so an unmatched event is not reported) is consumed in order
            if mi.queue and not self.mp and not self.visible(mi, mi.queue[0]):
                self.hit('C04', ('invisible-dispatch', mi.name))
                occ = mi.queue.pop(0)
                res = self.step(mi, occ, self.src_of(mi, occ))     # emits no expectation; may defer the occurrence
                just_handled = self.post_queued(mi, res)
                continue
            before = len(mi.queue)
            self.skip_completion_retries()
            if len(mi.queue) != before:
                continue            # an exception_caught handler inside a retried completion step enqueued
            nxt = self.peek()
            if nxt is None:
                return
            cand = self.next_pending(mi, nxt)
            if cand is None:
                cand = self.infer_nested(mi, nxt)
            if cand is None:
                return
            kind, occ = cand
            if kind == 'q':
                self.check_fifo(mi, occ)
                mi.queue.remove(occ)
                self.check_deferred_first(mi, occ)
                self.hit('C04', ('dispatch-queued', mi.name, len(mi.queue), occ.api))
                if self.mp and self.list_defers(mi, occ.typ, True) and False:
                    pass
                res = self.step(mi, occ, self.src_of(mi, occ))
                just_handled = self.post_queued(mi, res)
            else:
                self.check_defer_order(mi, occ)
                mi.deferred.remove(occ)
                self.hit('C05', ('reoffer', mi.name, tuple(mi.active), occ.typ, len(mi.deferred)))
                res = self.step(mi, occ, 'direct')
                just_handled = self.post_queued(mi, res)

    def src_of(self, mi, occ):
        if occ.free:
            return 'direct'
        if not self.mp and occ.api == 'q' and mi.parent is not None:
            return 'sub'          # back: enqueue_event stores a non-direct call
        return 'queue'

    def visible(self, mi, occ):
        """would dispatching occ on mi leave at least one record?"""
        if self.has_candidates(mi, occ.typ):
            return True
        if not self.mp and self.would_defer(mi, occ.typ):
            return False          # moved to a deferred queue without any callback
        return self.src_of(mi, occ) != 'sub'     # direct calls report no_transition

    def would_defer(self, mi, typ):
        """back: some active state (at this level or, through forwarding, below) defers typ by its list"""
        for sn in mi.active:
            st = mi.m['states'][sn]
            if st['kind'] == 'sub':
                if self.sub_knows(mi.children[sn], typ) and self.would_defer(mi.children[sn], typ):
                    return True
            elif typ in st['deferred']:
                return True
        return False

    def has_candidates(self, mi, typ):
        for sn in mi.active:
            st = mi.m['states'][sn]
            if st['kind'] == 'sub' and self.sub_knows(mi.children[sn], typ) and self.has_candidates(mi.children[sn], typ):
                return True
            if self.candidates(mi, sn, typ):
                return True
        return bool(self.sm_internal(mi, typ))

    def schedule_deferred_only(self, mi):
        pass

    def post_queued(self, mi, res):
        """completion round of a dispatched pending occurrence; returns whether a later record may be a completion step
        re-offered by that round's completion event (the step was handled and the round was not itself aborted)"""
        ab_before = set(mi.comp_aborted)
        self.completion_round(mi)
        return isinstance(res, int) and bool(res & T) and not (mi.comp_aborted - ab_before)

    def next_pending(self, mi, nxt, allow_queue=True):
        """which pending occurrence of mi does the next observed record dispatch (None: none of them)"""
        if nxt.k not in ('G', 'A', 'EN', 'EX', 'NT', 'XC'):
            return None
        if nxt.id < 0:
            return None
        lab = self.norm_ev(nxt)
        for o in (mi.queue if allow_queue else []):
            if o.id == nxt.id and self.same_type(o.typ, lab):
                if self.mp and self.list_defers(mi, o.typ, True):
                    continue
                return ('q', o)
        for o in mi.deferred:
            if o.id == nxt.id and self.same_type(o.typ, lab):
                return ('d', o)
        return None

    def infer_nested(self, mi, nxt):
        """the next record dispatches an occurrence pending in an active submachine below mi: that happens
        at the scheduling point inside the dispatch of one of mi's own pending occurrences whose first
        visible effect lies in that submachine; pick the oldest eligible one that is forwarded there"""
        if nxt.k not in ('G', 'A', 'EN', 'EX', 'NT', 'XC') or nxt.id < 0:
            return None
        below = None
        for sn in mi.active:
            if mi.kind(sn) == 'sub':
                for x in mi.children[sn].all():
                    if x.is_active_instance() and any(o.id == nxt.id for o in x.queue + x.deferred):
                        below = mi.children[sn]
        if below is None:
            return None
        pool = [('d', o) for o in mi.deferred if not self.list_defers(mi, o.typ, self.mp)]
        pool += [('q', o) for o in mi.queue if not (self.mp and self.list_defers(mi, o.typ, True))][:1]
        if self.mp:
            pool.sort(key=lambda ko: ko[1].seq)
        for kind, o in pool:
            if self.sub_knows(below, o.typ) and not self.has_candidates(below, o.typ):
                self.hit('C04', ('nested-first', mi.name, below.name))
                return (kind, o)
        return None

    def same_type(self, typ, lab):
        if lab is None:
            return False
        if lab.startswith('any/'):
            lab = lab[4:]
        if lab.startswith('W/'):
            lab = lab[2:]
        return lab in self.ix.ev_bases(typ)

    def check_fifo(self, mi, occ):
        if occ.free:
            return
        for o in mi.queue:
            if o is occ:
                return
            if o.free:
                continue
            if self.mp and self.list_defers(mi, o.typ, True):
                continue            # backmp11: a queued occurrence deferred by the configuration stays in the pool
            self.reject({'C04'}, 'fifo', 'queued %s before %s' % (o, occ))

    def check_deferred_first(self, mi, q):
        """C05: an eligible deferred occurrence goes before anything submitted after the configuration change"""
        for d in mi.deferred:
            if self.list_defers(mi, d.typ, self.mp):
                continue
            if d.offered_epoch == mi.epoch:
                continue            # already re-offered (and deferred again) in this configuration
            if q.seq > mi.epoch_seq:
                self.reject({'C05'}, 'deferred-after-later-event', 'deferred %s before %s' % (d, q))

    def check_defer_order(self, mi, occ):
        for d in mi.deferred:
            if d is occ:
                return
            if d.typ == occ.typ and not self.list_defers(mi, d.typ, self.mp):
                self.reject({'C05'}, 'same-type-order', 'deferred %s before %s' % (d, occ))

    # ------------------------------------------------------------------ quiescence obligations
    def mark_eligibility(self):
        for root in self.inst.values():
            for mi in root.all():
                for d in mi.deferred:
                    if self.list_defers(mi, d.typ, self.mp) or not mi.is_active_instance():
                        d.eligible_at = None
                    elif d.eligible_at is None:
                        d.eligible_at = self.gseq

    def quiescent(self, root, op):
        """obligations at the end of a top-level operation"""
        drains = op in ('process', 'drain', 'start')
        for mi in root.all():
            if mi.processing:
                self.reject({'C12', 'C04'}, 'still-processing', '%s not processing' % mi.name)
            if not mi.is_active_instance():
                continue
            if drains and mi.queue:
                left = [o for o in mi.queue if not (self.mp and self.list_defers(mi, o.typ, True))]
                if self.mp and mi.parent is not None and getattr(mi, 'sched_op', -1) != self.counts['ops']:
                    # backmp11: the pool of a submachine is processed when that submachine has processed an
                    # event; an occurrence it holds deferred (predicate true when it was last offered) stays
                    # there while the operation does not reach the submachine, whatever the predicate says now
                    left = [o for o in left if o.dispatched == 0 and not self.ever_deferrable(mi, o.typ)]
                if left and not self.blocked(mi, left[0].typ):
                    tags = {'C04'}
                    sq = (getattr(self, 'snap_queues', None) or {}).get(self.ix.machine_path(mi.name))
                    if sq is not None and sq[0] == 0 and not self.has_candidates(mi, left[0].typ):
                        # the library's queue is empty: the occurrence was dispatched, but the no_transition
                        # report its dispatch owes (nothing matches it) never came
                        tags = {'C04', 'C06'}
                    self.reject(tags, 'queued-not-dispatched', 'empty queue on %s, has %s' % (mi.name, left))
            if op in ('process', 'drain') or (op == 'drain1' and not self.mp):
                for d in mi.deferred:
                    if self.list_defers(mi, d.typ, self.mp):
                        continue
                    if d.offered_epoch != mi.epoch and not self.blocked(mi, d.typ):
                        self.reject({'C05'}, 'deferred-not-reoffered', '%s re-offered on %s' % (d, mi.name))

    # ------------------------------------------------------------------ snapshots
    def expected_levels(self, root):
        out = {}

        def walk(mi, path):
            out[path] = [self.state_id(mi, sn) for sn in mi.active]
            for sn in mi.active:
                if mi.kind(sn) == 'sub':
                    walk(mi.children[sn], path + '/' + sn)
        walk(root, root.name)
        return out

    def check_snapshot(self, root, rec, after_throw=False):
        levels, queues, extras = parse_snap(rec)
        exp = self.expected_levels(root)
        got = {p: v[0] for p, v in levels.items()}
        if got != exp:
            # after a contained exception the configuration is the one the switch policy prescribes for
            # the phase of the throw (C12)
            # under a non-default switch policy the configuration between operations is the policies' common ground (C19)
            self.reject({'C02', 'C03', 'C07'} | ({'C12', 'C19'} if after_throw else set()) | ({'C19'} if self.switch else set()),
                        'snapshot-config', exp, rec)
        self.hit('C03', tuple(sorted((p, tuple(v)) for p, v in exp.items())))
        # pending counts (C04 / C05): message + deferred queues, or the pool
        for mi in root.all():
            path = self.ix.machine_path(mi.name)
            if path not in queues:
                continue
            mq, dq = queues[path]
            if self.mp:
                exp_n = len(mi.queue) + len(mi.deferred) + len(mi.comp)
                if mq != exp_n:
                    self.reject({'C04', 'C05'}, 'pending-count', '%s pool=%d' % (path, exp_n), rec)
            else:
                if mq != len(mi.queue):
                    self.reject({'C04'}, 'pending-count', '%s msgq=%d' % (path, len(mi.queue)), rec)
                if dq >= 0 and dq != len(mi.deferred):
                    self.reject({'C05'}, 'pending-count', '%s defq=%d' % (path, len(mi.deferred)), rec)

    # ------------------------------------------------------------------ top level
    def new_root(self, tag):
        self.inst[tag] = MI(self.ix, self.spec['root'], None)

    def run(self, recs):
        self.recs = recs
        self.pos = 0
        self.new_root('A')
        self.cur_tag = 'A'
        while self.pos < len(self.recs):
            r = self.take()
            if r.k == 'OP':
                tok = r.extra[0]
                if tok[0] == 'M':
                    self.gmask = int(tok[1:], 16)
                continue
            if r.k == 'USE':
                self.cur_tag = r.extra[0]
                continue
            if r.k == 'CALL':
                if self.weak:
                    self.weak_call(r)
                else:
                    try:
                        self.call(r)
                    except Reject:
                        if not self.weak_pending:
                            raise
                        self.weak_resync()
                    if self.weak_pending:
                        self.weak = True
                        self.hit('C12', ('weak-mode', self.switch))
                continue
            if r.k in ('STDERR', 'EXITRC'):
                continue
            if r.k == 'LEDGER':
                self.ledger_errors.append(r.raw)
                continue
            if r.k == 'LIVE':
                live, ctor, dtor, errs = [int(x) for x in r.extra[:4]]
                self.zoo_stats = (live, ctor, dtor, errs)
                if live != 0:
                    raise Reject({'C20'}, 'event-objects-leaked', 'no stored event alive after all machines are destroyed',
                                 r.raw, self.pos)
                continue
            self.reject({'C04', 'C11'}, 'record-outside-call', 'CALL', r)
        if self.ledger_errors:
            raise Reject({'C20'}, 'event-instance-ledger', 'every stored event constructed and destroyed exactly once, intact',
                         self.ledger_errors[0], self.pos)

    def call(self, r):
        self.counts['ops'] += 1
        op = r.extra[0]
        if op in ('copy', 'assign', 'move', 'moveassign', 'destroy'):
            return self.call_copy(op, r)
        tag = r.extra[1]
        self.cur_tag = tag
        root = self.inst[tag]
        rc_expected = None
        was_blocked = False
        was_early = False
        threw_before = self.counts.get('throws', 0)
        if op == 'start':
            self.start(root)
        elif op == 'stop':
            self.stop(root)
        elif op == 'process':
            typ, id_ = r.extra[2].split(':')
            typ = self.events[int(typ[1:])]
            was_blocked = bool(self.blocked(root, typ))
            xc_before = len(self.cov.get('C12', ()))
            self.nthrow = 0
            self.early_defer = False
            res = self.submit(root, typ, int(id_), 'p')
            if self.early_defer:
                was_early = True
            rc_expected = res
        elif op == 'enqueue':
            typ, id_ = r.extra[2].split(':')
            typ = self.events[int(typ[1:])]
            self.submit(root, typ, int(id_), 'q')
        elif op == 'drain':
            self.schedule(root, src='drain')
        elif op == 'drain1':
            self.drain1(root)
        self.skip_completion_retries()
        nxt = self.peek()
        if nxt is None or nxt.k not in ('RET', 'ESC'):
            tags = {'C04', 'C11'} if was_blocked else {'C01', 'C02', 'C04', 'C06'}
            if nxt is not None and nxt.k in ('G', 'A', 'EX') and not was_blocked:
                tags = {'C01', 'C07'}
            if nxt is not None and nxt.id >= 0 and self.held_deferred(root, nxt.id):
                tags = tags | {'C05'}     # an occurrence the configuration defers was dispatched / reported
            self.reject(tags, 'surplus-record', 'RET', nxt)
        self.take()
        if nxt.k == 'ESC':
            self.reject({'C12'}, 'exception-escaped', 'RET', nxt)
        if op == 'process' and rc_expected not in ('blocked', 'stored') and not getattr(self, 'threw', False):
            rc = int(nxt.extra[0])
            if bool(rc & 1) != bool(rc_expected & T):
                self.reject({'C06'}, 'handled-bit', 'handled=%s' % bool(rc_expected & T), nxt)
            if (rc == 0) != (rc_expected == 0):
                self.reject({'C06'}, 'zero-code', 'zero=%s' % (rc_expected == 0), nxt)
        threw_in_op = self.counts.get('throws', 0) != threw_before or self.threw
        self.threw = False
        nxt = self.peek()
        self.snap_queues = parse_snap(nxt)[1] if (nxt is not None and nxt.k == 'SNAP') else None
        self.quiescent(root, 'blocked' if (rc_expected == 'blocked' or was_early) else op)
        nxt = self.peek()
        if nxt is not None and nxt.k == 'SNAP':
            self.take()
            self.check_snapshot(root, nxt, after_throw=threw_in_op)

    def weak_resync(self):
        while self.pos < len(self.recs) and self.recs[self.pos].k != 'CALL':
            if self.recs[self.pos].k == 'ESC':
                self.reject({'C12'}, 'exception-escaped', 'RET', self.recs[self.pos])
            self.pos += 1

    def weak_call(self, r):
        """continuation after an exception left a half-entered submachine active: no prediction, only
        'no escape, no crash, not wedged' (a stuck machine queues every event forwarded to it for ever)"""
        op = r.extra[0]
        snap = None
        while self.pos < len(self.recs) and self.recs[self.pos].k != 'CALL':
            x = self.recs[self.pos]
            if x.k == 'ESC':
                self.reject({'C12'}, 'exception-escaped', 'RET', x)
            if x.k == 'SNAP':
                snap = x
            self.pos += 1
        if snap is None or op != 'process':
            return
        # an event type that some state defers (list or Defer row) may legitimately stay pending: not counted
        if getattr(self, 'deferrable', None) is None:
            self.deferrable = set()
            for m in self.ix.order:
                for st in m['states'].values():
                    self.deferrable.update(st['deferred'])
                for row in list(m['table']) + list(m['internal']):
                    if row['actions'] == 'Defer' and row['ev']:
                        self.deferrable.add(row['ev'])
        evlab = r.extra[2].split(':')[0] if len(r.extra) > 2 else ''
        if evlab in self.deferrable or 'any' in self.deferrable:
            return
        levels, queues, extras = parse_snap(snap)
        for path, (mq, dq) in queues.items():
            prev = self.weak_prev.get(path, 0)
            if mq > prev and mq >= 2:
                self.weak_grow[path] = self.weak_grow.get(path, 0) + 1
            elif mq <= prev:
                self.weak_grow[path] = 0
            self.weak_prev[path] = mq
            if self.weak_grow.get(path, 0) >= 3:
                self.reject({'C12'}, 'wedged', 'events forwarded to %s are processed' % path, snap)

    def call_copy(self, op, r):
        # copies are handled by the differential monitor (C15); the model only keeps instance tags alive
        import copy as _c
        if op == 'destroy':
            self.inst.pop(r.extra[1], None)
        else:
            src, dst = r.extra[1], r.extra[2]
            self.inst[dst] = _c.deepcopy(self.inst[src])
            if op in ('move', 'moveassign'):
                pass
        nxt = self.peek()
        if nxt is not None and nxt.k in ('RET', 'ESC'):
            self.take()
        nxt = self.peek()
        if nxt is not None and nxt.k == 'SNAP':
            self.take()

    def start(self, root):
        tags = {'C02', 'C03'}
        root.running = True
        root.active = list(root.m['regions'])
        if self.mp and root.m.get('history') == 'always' and getattr(root, 'hist', None) and all(root.hist):
            # backmp11 runs the root's history policy in start() as well: a stopped root with always-history is
            # restored (back / back11 reset to the initial states); outside the clause 'a machine without history
            # can be started again from its initial states'
            root.active = list(root.hist)
        start_occ = Occ('other', -1, self.gseq)
        # back / back11 do not mark the root as processing while start() runs the initial entries
        root.processing = True
        site = self.machine_site(root)
        if self.mp:
            root.queue = []
            root.deferred = []
            root.comp = []
        self.expect_cb('EN', site, root, 'other', -1, tags, 'start-entry')
        self.after_cb('N', site, root)
        for r in range(root.n):
            self.enter_state(root, root.active[r], 'other', start_occ, tags)
            self.note_entered(root, r, root.active[r])
        root.processing = False
        self.schedule(root, after_handled=True)

    def stop(self, root):
        tags = {'C03'}
        occ = Occ('other', -1, self.gseq)
        self.exit_machine(root, 'other', occ, tags, fsm=root)

    def drain1(self, root):
        """single-step variants dispatch exactly the oldest pending occurrence (C04)"""
        self.completion_round(root)
        if self.mp:
            return self.drain1_mp(root)
        while root.queue:
            head = root.queue[0]
            if self.blocked(root, head.typ):
                root.queue.pop(0)
                if self.mp:
                    return
                return
            if self.mp and self.list_defers(root, head.typ, True):
                # stays in the pool; the step goes to the next occurrence
                rest = [o for o in root.queue if not self.list_defers(root, o.typ, True)]
                if not rest:
                    return
                head = rest[0]
            if not self.mp and not self.visible(root, head):
                root.queue.remove(head)
                res = self.step(root, head, self.src_of(root, head))
                self.post_queued(root, res)
                self.schedule(root, allow_queue=False)
                return
            nxt = self.peek()
            cand = self.next_pending(root, nxt) if nxt is not None else None
            if cand is None:
                self.reject({'C04'}, 'single-step', 'dispatch of %s' % head)
            kind, occ = cand
            if kind != 'q' or occ is not head:
                self.reject({'C04'}, 'single-step-oldest', 'dispatch of %s' % head)
            root.queue.remove(occ)
            res = self.step(root, occ, 'queue')
            # completion transitions triggered by the step belong to it (C10)
            self.post_queued(root, res)
            if self.mp and res == DF:
                continue            # "only deferred" does not count as a processed event
            if not self.mp:
                # back: the single event gets its full post-processing (deferred events are re-offered),
                # only the message queue is left alone
                self.schedule(root, allow_queue=False)
            return


    def drain1_mp(self, root):
        """backmp11: one pool, arrival order; the step goes to the oldest occurrence the configuration does
        not defer; an occurrence that is only deferred again does not count as the step"""
        tried = set()
        while True:
            pool = sorted([o for o in root.queue + root.deferred if id(o) not in tried], key=lambda o: o.seq)
            elig = [o for o in pool if not self.list_defers(root, o.typ, True)]
            while elig and self.blocked(root, elig[0].typ):
                o = elig.pop(0)
                (root.queue if o in root.queue else root.deferred).remove(o)
                return
            if not elig:
                return
            head = elig[0]
            nxt = self.peek()
            cand = self.next_pending(root, nxt) if nxt is not None else None
            if cand is None and nxt is not None:
                # the first visible record may belong to an occurrence pending in an active submachine: it is
                # dispatched inside the step of the root's occurrence that is forwarded there (nested-first)
                cand = self.infer_nested(root, nxt)
            if cand is None:
                if not any(o in root.queue for o in elig):
                    return          # only occurrences deferred in the current cycle are left
                self.reject({'C04'}, 'single-step', 'dispatch of %s' % head)
            kind, occ = cand
            if kind == 'q':
                # oldest queued occurrence; deferred occurrences ahead of it may be skipped when they were
                # deferred in the current processing cycle (sequence counter of the pool)
                self.check_fifo(root, occ)
            else:
                self.check_defer_order(root, occ)
            (root.queue if kind == 'q' else root.deferred).remove(occ)
            res = self.step(root, occ, 'queue')
            self.post_queued(root, res)
            if res == DF:
                tried.add(id(occ))
                continue
            return


def parse_snap(rec):
    """SNAP <inst> L <path>=ids:or:and ... Q <path>=mq/dq ... [ACT=..] VIS=.."""
    f = rec.extra
    levels, queues, extras = {}, {}, {}
    mode = None
    for tok in f[1:]:
        if tok == 'L':
            mode = 'L'
            continue
        if tok == 'Q':
            mode = 'Q'
            continue
        if '=' in tok and tok.split('=')[0] in ('ACT', 'VIS', 'VISN', 'VISALL', 'VISALLN', 'DATA'):
            k, v = tok.split('=', 1)
            extras[k] = v
            continue
        if mode == 'L':
            p, v = tok.split('=')
            ids, f_or, f_and = v.split(':')
            levels[p] = ([int(x) for x in ids.split(',')], f_or, f_and)
        elif mode == 'Q':
            p, v = tok.split('=')
            a, b = v.split('/')
            queues[p] = (int(a), int(b))
    return levels, queues, extras
