"""C13: back-end / compile-policy / dispatch-strategy / queue-container equivalence (differential)."""
import json

from . import build, engine, run, checks, diff, checks2

# (machine, configurations compared, workload)
C13_SETS = [
    ('m01', None), ('m04', None), ('m05', None), ('m06', None), ('m07d', None), ('m08', None), ('m10', None), ('m11d', None), ('m11', None),
    ('m17d', None),
    ('m17', None),     # completion rows in two regions entered together: plain workload only (known finding KF4)
    ('m07', None),     # guarded Defer-action row: plain workload only (known finding KF1)
    ('m02', ['b', 'bc', 'bq', 'mf', 'mp', 'mc']), ('m03', ['b', 'bc', 'bq', 'mf', 'mp', 'mc']),
    ('m09', ['b', 'bq', 'mf']),
]
WL = [dict(), dict(effects=0.3, effect_api='p'), dict(fail=0.3)]


from .checks import THOROUGH_GEN


def gen_names(tier, seed):
    """generated machine definitions: two fixed ones in the quick tier (cached by setup), a fixed set of 24 more in thorough"""
    out = ['gen:101', 'gen:103']
    if tier == 'thorough':
        out += THOROUGH_GEN
    return out


def has_sm_internal(m):
    return bool(m['internal']) or any(has_sm_internal(s['machine']) for s in m['states'].values() if s['kind'] == 'sub')


def gen_cfgs(name):
    """b11 does not compile machine-level internal tables: leave it out for generated machines that have one"""
    sp = engine.load_spec(name)
    if has_sm_internal(sp['root']):
        return [c for c in build.CONFIGS if c != 'b11']
    return None


def has_completion(spec):
    def walk(m):
        if any(r['ev'] is None for r in m['table']):
            return True
        return any(walk(s['machine']) for s in m['states'].values() if s['kind'] == 'sub')
    return walk(spec['root'])


def cut_at_aborted_own_entry(norm, ix):
    """An exception thrown by a submachine's OWN entry behaviour (the record before the THROW is the entry of a
    submachine state) leaves that submachine's inner ids unspecified: back / back11 have already set them for the new
    activation, backmp11 sets them after the entry behaviour.  No statement covers that inner configuration, and
    everything dispatched into that submachine afterwards depends on it: the comparison ends at such a throw."""
    sub_sites = set()
    for m in ix.order:
        for sn, st in m['states'].items():
            if st['kind'] == 'sub':
                sub_sites.add('%s.%s' % (m['name'], sn))
    for k in range(1, len(norm)):
        if norm[k][0] == 'THROW' and norm[k - 1][0] == 'EN' and norm[k - 1][1] in sub_sites:
            return norm[:k]
    return norm


def completion_source(ix, rec):
    """(machine, region, state) whose completion step the normalised record belongs to, or None"""
    if not isinstance(rec, tuple) or len(rec) < 4 or rec[3] != 'none':
        return None
    kind, site = rec[0], rec[1]
    if kind == 'EX' and '.' in site:
        mname, sname = site.split('.', 1)
    elif kind == 'G':
        gs = [g for g in ix.gsites if g['name'] == site]
        if not gs or not gs[0].get('cg_src'):
            return None
        mname, sname = gs[0]['cg_src'].split('.', 1)
    else:
        return None
    m = ix.machines.get(mname)
    if m is None or sname not in m['states']:
        return None
    return (mname, ix.region_of(m, sname), sname)


def completion_order_case(ix, a, b):
    """the two traces continue with completion steps of two *different regions* of the same machine: the
    families order the completion transitions of states entered in one cascade differently (KF4)"""
    sa, sb = completion_source(ix, a), completion_source(ix, b)
    if sa is None or sb is None or sa[0] != sb[0] or sa[1] is None or sb[1] is None or sa[1] == sb[1]:
        return None
    lo, hi = sorted([sa[1], sb[1]])
    return '%s:regions %d~%d' % (sa[0], lo, hi)


def run_c13(tier, seed):
    prop = 'C13'
    ev = engine.Evidence(prop, tier, seed)
    ev.rule = ('distinct (machine, script) pairs whose normalised traces were compared across all configurations and fired >= 3 '
               'transitions; distinct_nontrivial counts (machine, script index, workload) triples')
    ev.assumptions = ['machines restricted to the common feature subset of the C13 quantifier; b11 is left out for machines with a '
                      'machine-level internal table (it does not compile them)',
                      'normalisation (vf/diff.py): false completion-guard evaluations dropped, return code -> (handled, zero), '
                      'pending counts summed over message and deferred queue / pool, any- and direct-entry wrappers stripped where the statement leaves them open',
                      'top-level enqueue_event / single-step draining are not used (a direct process_event overtakes enqueued events in back but not in the backmp11 pool: API semantics outside the statement); nested submissions use process_event; failpoints not on machines with completion rows and not combined with nested submissions; a comparison ends where the own entry behaviour of a submachine throws (the inner ids of that submachine are then unspecified: back sets them before, backmp11 after that behaviour); a nested submission made inside the entry cascade through an entry pseudo state goes to the root, not to the submachine being entered (the order of the pseudo state continuation relative to events stored by its own cascade is not part of any statement and differs between the families)']
    known = engine.load_known()
    n = 50 if tier == 'quick' else 500
    hs = {m: engine.Harness(m, cfgs) for m, cfgs in C13_SETS}
    for g in gen_names(tier, seed):
        hs[g] = engine.Harness(g, gen_cfgs(g))
    errs = engine.build_harnesses(list(hs.values()))
    if errs:
        print('HARNESS build failure:\n' + '\n'.join(errs)[:4000])
        return 2
    violations, harness_problems, known_hits = [], [], {}
    pairs = 0
    sets = list(C13_SETS) + [(g, None) for g in gen_names(tier, seed)]
    for m, cfgs in sets:
        h = hs[m]
        # "the active state ids ... identical": the numeric ids themselves (as the library numbers the states)
        hdr = run.run_matrix(h.bins, ['S'])
        ref0 = 'mf' if 'mf' in h.cfgs else h.cfgs[0]
        idmaps = {c: run.parse_idmap(hdr[c][0].header)[0] for c in h.cfgs}
        for c in h.cfgs:
            if idmaps[c] != idmaps[ref0]:
                diffm = [mm for mm in idmaps[ref0] if idmaps[c].get(mm) != idmaps[ref0][mm]]
                sig = '%s|numbering|%s' % (m, diffm)
                k = engine.match_known(known, prop, build.FAMNAME[c], 'state-id-numbering', sig)
                if k:
                    known_hits[k['id']] = known_hits.get(k['id'], 0) + 1
                    continue
                rp = engine.write_replay(prop, {'kind': 'c13', 'property': prop, 'machine': m, 'cfgs': [ref0, c], 'script': 'S',
                                                'rule': 'state-id-numbering', 'expected': str(idmaps[ref0]), 'got': str(idmaps[c])})
                violations.append((rp, m, '%s-vs-%s' % (ref0, c), 'state-id-numbering', idmaps[ref0], idmaps[c]))
        for wi, kw in enumerate(WL):
            if kw.get('fail') and has_completion(h.spec0):
                continue
            if m in ('m07', 'm11', 'm17') and wi != 0:
                continue
            scripts = checks.scripts_for(h, seed + wi, n, dict(kw, drain1=False, entry_point_self=False))
            res = run.run_matrix(h.bins, scripts)
            ref = 'mf' if 'mf' in h.cfgs else h.cfgs[0]
            for i in range(len(scripts)):
                norm = {}
                bad = False
                for cfg in h.cfgs:
                    r = res[cfg][i]
                    if r.status != 'ok':
                        rp = engine.write_replay(prop, {'kind': 'c13', 'property': prop, 'machine': m, 'cfgs': [cfg], 'script': scripts[i],
                                                        'rule': 'crash:' + r.status, 'expected': 'normal end', 'got': r.status})
                        violations.append((rp, m, cfg, 'crash:' + r.status.split(':')[0], 'normal end of script', r.status))
                        bad = True
                        continue
                    norm[cfg] = cut_at_aborted_own_entry(diff.normalize(r.recs, h.ixs[cfg], names=True), h.ixs[cfg])
                ev.evaluations += len(h.cfgs)
                if bad or ref not in norm:
                    continue
                ntrans = sum(1 for x in norm[ref] if x[0] == 'EN')
                if ntrans >= 3:
                    ev.distinct.add((m, wi, i))
                for cfg in h.cfgs:
                    if cfg == ref or cfg not in norm:
                        continue
                    pairs += 1
                    j = diff.first_diff(norm[ref], norm[cfg])
                    if j is None:
                        continue
                    a = norm[ref][j] if j < len(norm[ref]) else 'END'
                    b = norm[cfg][j] if j < len(norm[cfg]) else 'END'
                    sig = '%s|%s|%s' % (m, str(a)[:120], str(b)[:120])
                    rule = 'differential'
                    co = completion_order_case(h.ixs[cfg], a, b)
                    if co:
                        rule, sig = 'completion-order-across-regions', '%s|%s' % (m, co)
                    k = engine.match_known(known, prop, build.FAMNAME[cfg], rule, sig)
                    if k:
                        known_hits[k['id']] = known_hits.get(k['id'], 0) + 1
                        continue
                    rp = engine.write_replay(prop, {'kind': 'c13', 'property': prop, 'machine': m, 'cfgs': [ref, cfg], 'script': scripts[i],
                                                    'rule': rule, 'expected': str(a), 'got': str(b), 'pos': j,
                                                    'window_ref': [str(x) for x in norm[ref][max(0, j - 8):j + 3]],
                                                    'window_cfg': [str(x) for x in norm[cfg][max(0, j - 8):j + 3]]})
                    violations.append((rp, m, '%s-vs-%s' % (ref, cfg), rule, a, b))
                if len(ev.samples) < 3 and i == 0:
                    ev.samples.append({'machine': m, 'configurations': h.cfgs, 'script': scripts[i][:500],
                                       'normalised_trace_head': [str(x) for x in norm[ref][:20]]})
    ev.extra.update({'trace_pairs_compared': pairs, 'known_finding_hits': known_hits,
                     'configurations': build.CONFIGS})
    return checks2.report(prop, ev, violations, harness_problems, known, known_hits, tier, 20, 40)


def replay_c13(path):
    d = json.load(open(path))
    h = engine.Harness(d['machine'], d['cfgs'])
    errs = engine.build_harnesses([h])
    if errs:
        print('\n'.join(errs))
        return 2
    res = run.run_matrix(h.bins, [d['script']])
    norm = {}
    for cfg in h.cfgs:
        r = res[cfg][0]
        if r.status != 'ok':
            print('cfg %s: %s' % (cfg, r.status))
            print('VIOLATION property=C13 replay=%s' % path)
            return 1
        norm[cfg] = cut_at_aborted_own_entry(diff.normalize(r.recs, h.ixs[cfg], names=True), h.ixs[cfg])
    if len(h.cfgs) < 2:
        print('ACCEPTED')
        return 0
    a, b = norm[h.cfgs[0]], norm[h.cfgs[1]]
    j = diff.first_diff(a, b)
    if j is None:
        print('ACCEPTED: traces of %s are identical on the current tree' % h.cfgs)
        return 0
    for k in range(max(0, j - 10), j + 3):
        print('%s %-90s | %s' % ('>>' if k == j else '  ', str(a[k])[:90] if k < len(a) else 'END', str(b[k])[:90] if k < len(b) else 'END'))
    print('VIOLATION property=C13 replay=%s' % path)
    return 1


def setup():
    return engine.build_harnesses([engine.Harness(m, cfgs) for m, cfgs in C13_SETS] + [engine.Harness(g, gen_cfgs(g)) for g in gen_names('quick', 1)])
