"""valgrind memcheck runs of harness binaries (-O0 builds: see DESIGN D4), one script per process."""
import os
import re
import subprocess
from concurrent.futures import ThreadPoolExecutor

VG = ['valgrind', '-q', '--error-exitcode=99', '--track-origins=yes', '--num-callers=12',
      '--leak-check=full', '--errors-for-leak-kinds=definite', '--show-leak-kinds=definite']


def run_one(binary, script, timeout=300):
    try:
        p = subprocess.run(VG + [binary], input=script + '\n', stdout=subprocess.PIPE, stderr=subprocess.PIPE,
                           text=True, timeout=timeout, errors='replace')
    except subprocess.TimeoutExpired:
        return {'status': 'timeout', 'report': ''}
    if p.returncode == 0:
        return {'status': 'clean', 'report': ''}
    err = p.stderr
    lines = [l for l in err.split('\n') if l.startswith('==')]
    head = ''
    where = ''
    for l in lines:
        t = re.sub(r'^==\d+== ?', '', l)
        if not head and t.strip() and not t.startswith(' '):
            head = t.strip()
        m = re.search(r'\(([\w./]+\.hpp:\d+)\)', t)
        if head and m and 'msm' in t and not where:
            where = m.group(1)
    if p.returncode != 99:
        return {'status': 'died:%d' % p.returncode, 'report': err[-1500:], 'head': head or 'abnormal exit', 'where': where}
    return {'status': 'error', 'report': '\n'.join(lines[:40]), 'head': head, 'where': where}


def run_many(jobs, workers=16):
    """jobs: list of (binary, script) -> list of result dicts"""
    with ThreadPoolExecutor(max_workers=workers) as ex:
        return list(ex.map(lambda j: run_one(j[0], j[1]), jobs))
