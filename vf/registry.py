"""property id -> check implementation"""
import json
from . import checks

MODEL_PROPS = ['C01', 'C02', 'C04', 'C05', 'C06', 'C07', 'C08', 'C09', 'C10', 'C11', 'C12', 'C18']


def run(prop, tier, seed):
    if prop in MODEL_PROPS:
        return checks.run_model_check(prop, tier, seed)
    mod = EXTRA.get(prop)
    if mod is None:
        print('no check registered for', prop)
        return 2
    return mod(tier, seed)


def replay(prop, path):
    d = json.load(open(path))
    kind = d.get('kind', 'model')
    if kind == 'model':
        return checks.replay(path)
    fn = REPLAY.get(kind)
    if fn is None:
        print('unknown replay kind', kind)
        return 2
    return fn(path)


def setup():
    """pre-build the quick-tier binaries (MANIFEST.setup_cmd)"""
    from . import engine
    hs = {}
    for prop in MODEL_PROPS:
        for p in checks.PROFILES[prop] + checks.gen_profiles(prop, 'quick', 1):
            machines, kw, nq, nt, cfgs, sw = tuple(p) + (0,) * (6 - len(p))
            for m in machines:
                key = (m, tuple(cfgs) if cfgs else None, sw)
                if key not in hs:
                    hs[key] = engine.Harness(m, cfgs, switch=sw)
    errs = engine.build_harnesses(list(hs.values()))
    for fn in SETUP:
        errs += fn() or []
    if errs:
        print('\n'.join(errs)[:6000])
        return 2
    print('setup ok: %d harness groups' % len(hs))
    return 0


from . import checks2, checks3, checks4, checks5, checks6

EXTRA = {
    'C03': lambda tier, seed: checks2.run_ledger_check('C03', tier, seed),
    'C17': lambda tier, seed: checks2.run_ledger_check('C17', tier, seed),
    'C19': checks2.run_c19,
    'C13': checks3.run_c13,
    'C15': checks4.run_c15,
    'C16': checks4.run_c16,
    'C20': checks5.run_c20,
    'C14': checks6.run_c14,
}
REPLAY = {'c13': checks3.replay_c13, 'memcheck': checks.replay_memcheck, 'c15': checks4.replay_c15, 'c20': checks5.replay_c20, 'c20poly': checks5.replay_c20, 'puml': checks6.replay_c14, 'c14v': checks6.replay_c14, 'c14p': checks6.replay_c14}
SETUP = [checks2.setup, checks3.setup, checks4.setup, checks5.setup, checks6.setup]


def claimed():
    return set(MODEL_PROPS) | set(EXTRA)
