"""C20: stored events keep their value and are destroyed exactly once - sanitizers + instance ledger."""
import hashlib
import json
import os
import random
import subprocess
import zlib

from . import build, engine, run, workload, checks, checks2, checks4, memcheck

SAN_ENV = {'ASAN_OPTIONS': 'abort_on_error=1:detect_leaks=1:detect_stack_use_after_return=1:allocator_may_return_null=1',
           'UBSAN_OPTIONS': 'print_stacktrace=1:halt_on_error=1'}
WL = [dict(effects=0.3, enqueue=0.35, stop=0.4, restart=0.1),
      dict(effects=0.2, enqueue=0.4, fail=0.2, stop=0.2)]


def build_poly():
    src = open(os.path.join(build.RT, 'poly_test.cpp')).read()
    cc, flags = build.MODES['asan']
    line = [cc, '-std=c++20', '-w', '-I' + os.path.join(build.REPO, 'include'), '-I' + build.RT, '-D' + build.GUARD] + flags
    key = hashlib.sha256(('\0'.join([build.repo_hash(), src] + line)).encode()).hexdigest()[:24]
    d = os.path.join(build.CACHE, key)
    binp = os.path.join(d, 'bin')
    if os.path.exists(binp):
        return binp, ''
    os.makedirs(d, exist_ok=True)
    p = subprocess.run(line + [os.path.join(build.RT, 'poly_test.cpp'), '-o', binp + '.tmp'], stdout=subprocess.PIPE,
                       stderr=subprocess.STDOUT, text=True)
    if p.returncode != 0:
        return None, p.stdout[-3000:]
    os.rename(binp + '.tmp', binp)
    return binp, ''


def run_c20(tier, seed):
    prop = 'C20'
    ev = engine.Evidence(prop, tier, seed)
    ev.rule = ('distinct (configuration, event type = size/alignment/trait class, storage path seen: queued / deferred / dispatched from '
               'storage / copied with machine / destroyed while pending) classes, plus (copy operation, configuration) classes and '
               'basic_polymorphic exerciser runs')
    ev.assumptions = ['AddressSanitizer / UBSan (clang 14, -O1) red zones and leak check; intra-object overflows are out of reach',
                      'the instance ledger is kept by the event classes themselves (non-trivial traits); trivial classes are covered by value checks and sanitizers only',
                      'function and object-size UBSan checks are off (the dispatch tables call through reinterpret_cast function pointers by design)']
    known = engine.load_known()
    n = 60 if tier == 'quick' else 800
    violations, harness_problems, known_hits = [], [], {}
    h = engine.Harness('m14', None, mode='asan')
    errs = engine.build_harnesses([h])
    pb, perr = build_poly()
    if errs or not pb:
        print('HARNESS build failure:\n' + '\n'.join(errs)[:3000] + perr)
        return 2
    zoo = h.spec0['zoo']
    # ---- part 1: scripted histories under ASan+UBSan
    for wi, kw in enumerate(WL):
        scripts = checks.scripts_for(h, seed + wi, n, kw)
        res = run.run_matrix(h.bins, scripts, env=SAN_ENV, chunk=None)
        verdicts = engine.accept_all(h, res)
        for cfg in h.cfgs:
            for i, v in enumerate(verdicts[cfg]):
                ev.evaluations += 1
                recs = res[cfg][i].recs
                # coverage: which event types travelled through which storage
                pend = set()
                for r in recs:
                    if r.k in ('SUB',):
                        pend.add(r.extra[4].split(':')[0])
                    if r.k == 'CALL' and r.extra[0] == 'enqueue':
                        pend.add(r.extra[2].split(':')[0])
                for e in pend:
                    ev.distinct.add((build.FAMNAME[cfg], cfg, e, str(zoo.get('E' + e[1:] if e[0] == 'E' else e, '')), 'stored'))
                bad = None
                if res[cfg][i].status != 'ok':
                    tail = ' '.join(x.raw for x in recs[-3:])[-600:]
                    bad = ('sanitizer-or-crash:' + res[cfg][i].status.split(':')[0], 'clean run', tail)
                elif any(x.k == 'EXITRC' for x in recs):
                    bad = ('exit-report', 'clean exit (no leak report)', [x.raw for x in recs if x.k == 'EXITRC'][0][:600])
                elif not v['ok'] and ('C20' in v['tags']):
                    bad = (v['rule'], v['expected'], v['got'])
                elif not v['ok'] and 'HARNESS' in v['tags']:
                    harness_problems.append(('m14', cfg, v['rule'], v['got'][:300]))
                if bad is None:
                    if len(ev.samples) < 2 and i == 0:
                        ev.samples.append({'machine': 'm14', 'cfg': cfg, 'script': scripts[i][:500],
                                           'observed_trace_tail': engine.short_trace(recs, max(0, len(recs) - 8), 8)})
                    continue
                rule, exp, got = bad
                sig = 'm14|%s|%s' % (str(exp)[:120], str(got)[:200])
                k = engine.match_known(known, prop, build.FAMNAME[cfg], rule, sig)
                if k:
                    known_hits[k['id']] = known_hits.get(k['id'], 0) + 1
                    continue
                rp = engine.write_replay(prop, {'kind': 'c20', 'property': prop, 'machine': 'm14', 'cfg': cfg, 'script': scripts[i],
                                                'rule': rule, 'expected': str(exp), 'got': str(got)})
                violations.append((rp, 'm14', cfg, rule, exp, got))
    # ---- part 1b: circular-buffer queues that are actually full (capacity 2 and 3): pushing onto a full
    # boost::circular_buffer overwrites the oldest stored event (event loss is the container's documented behaviour and
    # is not judged here); every copy must still be destroyed exactly once and never while a behaviour is looking at it
    for cap in (2, 3):
        hq = engine.Harness('m14', ['bq'], mode='asan', extra=('-DVF_QCAP=%d' % cap,))
        errs = engine.build_harnesses([hq])
        if errs:
            harness_problems.append(('small-capacity build', errs[0][-300:]))
            continue
        scripts = checks.scripts_for(hq, seed + 40 + cap, n, dict(effects=0.7, enqueue=0.3, effect_api='pqq'))
        res = run.run_matrix(hq.bins, scripts, env=SAN_ENV, chunk=None)
        for i, r in enumerate(res['bq']):
            ev.evaluations += 1
            recs = r.recs
            bad = None
            led = [x.raw for x in recs if x.k == 'LEDGER']
            live = [x for x in recs if x.k == 'LIVE']
            if r.status != 'ok':
                bad = ('sanitizer-or-crash:' + r.status.split(':')[0], 'clean run', ' '.join(x.raw for x in recs[-3:])[-600:])
            elif any(x.k == 'EXITRC' for x in recs):
                bad = ('exit-report', 'clean exit (no leak report)', [x.raw for x in recs if x.k == 'EXITRC'][0][:600])
            elif led:
                bad = ('instance-ledger', 'every stored copy destroyed exactly once, none used after destruction', led[0][:300])
            elif live and any(x.extra and x.extra[0] != '0' for x in live):
                bad = ('instance-ledger-live', 'no event copy alive at the end of the script', live[-1].raw)
            if bad is None:
                ev.distinct.add(('small-circular', cap, i % 20))
                continue
            rule, exp, got = bad
            k = engine.match_known(known, prop, 'back', rule, 'm14|cap=%d|%s' % (cap, got[:200]))
            if k:
                known_hits[k['id']] = known_hits.get(k['id'], 0) + 1
                continue
            rp = engine.write_replay(prop, {'kind': 'c20', 'property': prop, 'machine': 'm14', 'cfg': 'bq', 'script': scripts[i],
                                            'extra': ['-DVF_QCAP=%d' % cap], 'rule': rule, 'expected': str(exp), 'got': str(got)})
            violations.append((rp, 'm14', 'bq/cap=%d' % cap, rule, exp, got))
    # ---- part 2: machines copied / moved / destroyed with events pending
    ncopy = 30 if tier == 'quick' else 300
    for fam_mp in (False, True):
        cfgs = [c for c in h.cfgs if (build.FAMILY[c] == 'MP11') == fam_mp]
        rng = random.Random(seed * 31 + int(fam_mp))
        cases = [checks4.gen_case(h, rng, fam_mp) for _ in range(ncopy)]
        scripts = [c['main'] for c in cases]
        res = run.run_matrix({c: h.bins[c] for c in cfgs}, scripts, env=SAN_ENV)
        for cfg in cfgs:
            for i, c in enumerate(cases):
                ev.evaluations += 1
                r = res[cfg][i]
                ev.distinct.add((cfg, 'copy', c['op'], min(c['pending'], 3)))
                bad = None
                if r.status != 'ok':
                    bad = ('sanitizer-or-crash:' + r.status.split(':')[0], 'clean run', ' '.join(x.raw for x in r.recs[-3:])[-600:])
                else:
                    led = [x.raw for x in r.recs if x.k == 'LEDGER']
                    live = [x for x in r.recs if x.k == 'LIVE']
                    if led:
                        bad = ('event-instance-ledger', 'no ledger complaint', led[0])
                    elif live and int(live[-1].extra[0]) != 0:
                        bad = ('event-objects-leaked', 'no stored event alive at the end', live[-1].raw)
                    elif any(x.k == 'EXITRC' for x in r.recs):
                        bad = ('exit-report', 'clean exit', [x.raw for x in r.recs if x.k == 'EXITRC'][0][:600])
                if bad is None:
                    continue
                rule, exp, got = bad
                sig = 'm14|%s|%s|pending-at-copy=%s' % (exp, got[:200], 'yes' if c['pending'] else 'no')
                k = engine.match_known(known, prop, build.FAMNAME[cfg], rule, sig)
                if k:
                    known_hits[k['id']] = known_hits.get(k['id'], 0) + 1
                    continue
                rp = engine.write_replay(prop, {'kind': 'c20', 'property': prop, 'machine': 'm14', 'cfg': cfg, 'script': scripts[i],
                                                'rule': rule, 'expected': exp, 'got': got})
                violations.append((rp, 'm14', cfg, rule, exp, got))
    # ---- part 3: basic_polymorphic exercised directly
    polyruns = 8 if tier == 'quick' else 64
    from concurrent.futures import ThreadPoolExecutor

    def poly_run(k):
        return subprocess.run([pb, str(seed * 1000 + k), '20000' if tier == 'quick' else '100000'], stdout=subprocess.PIPE,
                              stderr=subprocess.PIPE, text=True, env=dict(os.environ, **SAN_ENV))
    with ThreadPoolExecutor(max_workers=16) as ex:
        poly_res = list(ex.map(poly_run, range(polyruns)))
    for k in range(polyruns):
        ev.evaluations += 1
        p = poly_res[k]
        if p.returncode != 0 or 'POLY' not in p.stdout:
            rp = engine.write_replay(prop, {'kind': 'c20poly', 'property': prop, 'seed': seed * 1000 + k,
                                            'rule': 'basic-polymorphic', 'expected': 'clean', 'got': (p.stdout + p.stderr)[-2000:]})
            violations.append((rp, 'basic_polymorphic', 'asan', 'basic-polymorphic', 'clean run', (p.stdout + p.stderr)[-300:]))
        else:
            ev.distinct.add(('poly', k))
            if k == 0:
                ev.samples.append({'basic_polymorphic_exerciser': p.stdout.strip()})
    # ---- part 4: memcheck on -O0 builds (uninitialised reads are invisible to ASan)
    hv = engine.Harness('m14', ['mf', 'b'] if tier == 'quick' else None, mode='vg')
    errs = engine.build_harnesses([hv])
    if errs:
        harness_problems.append(('memcheck-build', errs[0][:300]))
    else:
        scripts = checks.scripts_for(hv, seed + 5, 6 if tier == 'quick' else 40, WL[0])
        jobs = [(hv.bins[c], s) for c in hv.cfgs for s in scripts]
        meta = [(c, s) for c in hv.cfgs for s in scripts]
        for (cfg, s), r in zip(meta, memcheck.run_many(jobs)):
            ev.evaluations += 1
            if r['status'] == 'clean':
                ev.distinct.add(('memcheck', cfg, zlib.crc32(s.encode()) % 4))
                continue
            if r['status'] == 'timeout':
                harness_problems.append(('memcheck-timeout', cfg))
                continue
            rp = engine.write_replay(prop, {'kind': 'memcheck', 'property': prop, 'machine': 'm14', 'cfg': cfg, 'script': s,
                                            'rule': 'memcheck', 'expected': 'no memcheck report', 'got': r.get('head', ''),
                                            'report': r['report'][:3000]})
            violations.append((rp, 'm14', cfg, 'memcheck', 'no valgrind memcheck report', '%s at %s' % (r.get('head'), r.get('where'))))
    ev.extra.update({'known_finding_hits': known_hits, 'sanitizers': 'clang-14 ASan+UBSan -O1, valgrind memcheck -O0',
                     'event_zoo': {k: {'pad': v[0], 'align': v[1], 'trait': v[2]} for k, v in zoo.items()}})
    return checks2.report(prop, ev, violations, harness_problems, known, known_hits, tier, 20, 40)


def replay_c20(path):
    d = json.load(open(path))
    if d.get('kind') == 'c20poly':
        pb, perr = build_poly()
        p = subprocess.run([pb, str(d['seed']), '20000'], stdout=subprocess.PIPE, stderr=subprocess.PIPE, text=True,
                           env=dict(os.environ, **SAN_ENV))
        print(p.stdout[-2000:], p.stderr[-3000:])
        if p.returncode == 0:
            print('ACCEPTED')
            return 0
        print('VIOLATION property=C20 replay=%s' % path)
        return 1
    h = engine.Harness(d['machine'], [d['cfg']], mode='asan', extra=tuple(d.get('extra', ())))
    errs = engine.build_harnesses([h])
    if errs:
        print('\n'.join(errs))
        return 2
    r = run.run_matrix(h.bins, [d['script']], env=SAN_ENV)[d['cfg']][0]
    for x in r.recs[-40:]:
        print('  ', x.raw[:400])
    if d.get('extra'):
        v = {'ok': True, 'tags': []}       # small-capacity runs lose events by design: sanitizer and instance ledger only
    else:
        v = engine.accept_all(h, {d['cfg']: [r]}, parallel=False)[d['cfg']][0]
    bad = r.status != 'ok' or any(x.k in ('EXITRC', 'LEDGER') for x in r.recs) or (not v['ok'] and 'C20' in v['tags'])
    if not bad:
        print('ACCEPTED: clean on the current tree')
        return 0
    print('VIOLATION property=C20 replay=%s' % path)
    return 1


def setup():
    errs = engine.build_harnesses([engine.Harness('m14', None, mode='asan'), engine.Harness('m14', ['mf', 'b'], mode='vg')])
    pb, perr = build_poly()
    if not pb:
        errs.append(perr)
    return errs
