"""Shared machinery of the checks: corpus loading, building, running, accepting, findings, evidence."""
import hashlib
import importlib
import json
import os
import random
import sys
import time
from concurrent.futures import ProcessPoolExecutor

from . import build, gen_cpp, model, run, workload
from .spec import Index, spec_for_cfg

VERIF = build.VERIF
EVID = os.path.join(VERIF, 'evidence')
REPLAYS = os.path.join(build.OUT, 'replays')
KNOWN = os.path.join(VERIF, 'known_findings.json')

CORPUS = ['m01', 'm02', 'm03', 'm04', 'm05', 'm06', 'm07', 'm08', 'm09', 'm10', 'm11', 'm12', 'm13']


def load_spec(name):
    if name.startswith('gen:'):
        from . import gen_spec
        return gen_spec.generate(int(name[4:]))
    if name.startswith('pgen:'):
        from . import gen_spec
        return gen_spec.generate_flat(int(name[5:]))
    return importlib.import_module('vf.corpus.' + name).spec()


def cfgs_of(spec, only=None):
    c = spec.get('configs', build.CONFIGS)
    if only:
        c = [x for x in c if x in only]
    return list(c)


class Harness:
    """one spec compiled for a set of configurations"""

    def __init__(self, name, cfgs=None, switch=0, mode='plain', variant='functor', extra=(), libs=()):
        self.extra = tuple(extra)
        self.libs = tuple(libs)
        self.name = name
        self.spec0 = load_spec(name)
        self.cfgs = cfgs_of(self.spec0, cfgs)
        self.switch = switch
        self.mode = mode
        self.variant = variant
        import copy as _copy
        # one private copy per configuration: Index annotates the spec in place (state ids are family specific)
        self.specs = {c: _copy.deepcopy(spec_for_cfg(self.spec0, c)) for c in self.cfgs}
        self.ixs = {}
        for c in self.cfgs:
            self.ixs[c] = Index(self.specs[c], build.FAMNAME[c])
        self.bins = {}

    def jobs(self):
        out = []
        for c in self.cfgs:
            out.append(dict(name=self.spec0['name'], src=gen_cpp.generate(self.specs[c], self.variant), cfg=c,
                            mode=self.mode, switch=self.switch, harness=self, extra=self.extra, libs=self.libs))
        return out


def build_harnesses(hs):
    """build all harnesses in one parallel batch; returns list of error strings"""
    jobs = []
    for h in hs:
        jobs += h.jobs()
    errs = []
    for j, b, e in build.build_many(jobs):
        if b is None:
            errs.append('%s/%s: %s' % (j['name'], j['cfg'], e[-1500:]))
        else:
            j['harness'].bins[j['cfg']] = b
    return errs


# ---------------------------------------------------------------------- accepting (in worker processes)
def _accept_one(args):
    spec, cfg, switch, recs_raw, status = args
    recs = [run.Rec(x) for x in recs_raw]
    acc = model.Acceptor(spec, cfg, switch=switch)
    out = {'ok': True, 'cov': None, 'counts': None}
    try:
        if status != 'ok':
            raise model.Reject({'CRASH'}, 'crash:' + status.split(':')[0], 'normal end of script',
                               recs[-1] if recs else None, len(recs))
        acc.run(recs)
    except model.Reject as e:
        out.update(ok=False, tags=sorted(e.tags), rule=e.rule, expected=str(e.expected)[:400], got=str(e.got)[:400],
                   pos=e.pos, pending=getattr(e, 'pending', None))
    except Exception as e:      # a bug in the acceptor is a harness failure, never a verdict
        import traceback
        out.update(ok=False, tags=['HARNESS'], rule='acceptor-exception', expected='', got=traceback.format_exc()[-800:], pos=acc.pos)
    out['cov'] = {k: list(v) for k, v in acc.cov.items()}
    out['counts'] = acc.counts
    # model-free invariant monitors (C03, C17)
    from . import ledger
    led = ledger.Ledger(spec, acc.ix, cfg)
    lv = {'ok': True, 'status': None}
    try:
        if status == 'ok':
            lv['status'] = led.run(recs)
        else:
            lv['status'] = 'skipped-crash'
    except ledger.LedgerReject as e:
        lv.update(ok=False, tags=sorted(e.tags), rule=e.rule, expected=str(e.expected)[:400], got=str(e.got)[:400], pos=e.pos)
    except Exception:
        import traceback
        lv.update(ok=False, tags=['HARNESS'], rule='ledger-exception', expected='', got=traceback.format_exc()[-800:], pos=0)
    lv['cov'] = {k: list(v) for k, v in led.cov.items()}
    lv['snaps'] = led.n_snaps
    out['ledger'] = lv
    return out


_pool = None


def pool():
    global _pool
    if _pool is None:
        _pool = ProcessPoolExecutor(max_workers=min(16, os.cpu_count() or 4))
    return _pool


def accept_all(h, results_by_cfg, parallel=True):
    """results_by_cfg: {cfg: [run.Result]} -> {cfg: [verdict dict]}"""
    tasks = []
    order = []
    for cfg, rs in results_by_cfg.items():
        for i, r in enumerate(rs):
            tasks.append((h.specs[cfg], cfg, h.switch, [x.raw for x in r.recs], r.status))
            order.append((cfg, i))
    if parallel and len(tasks) > 64:
        verdicts = list(pool().map(_accept_one, tasks, chunksize=max(1, len(tasks) // 64)))
    else:
        verdicts = [_accept_one(t) for t in tasks]
    out = {cfg: [None] * len(rs) for cfg, rs in results_by_cfg.items()}
    for (cfg, i), v in zip(order, verdicts):
        out[cfg][i] = v
    return out


# ---------------------------------------------------------------------- findings
def load_known():
    try:
        with open(KNOWN) as f:
            return json.load(f)
    except FileNotFoundError:
        return {'known': [], 'fixed': []}


def match_known(known, prop, family, rule, signature):
    """a known finding is identified by property + back-end family + oracle rule + a signature substring"""
    for k in known.get('known', []):
        if k['property'] != prop:
            continue
        fams = k.get('family')
        if isinstance(fams, str):
            fams = [fams]
        if fams and family not in fams:
            continue
        rules = k.get('rule')
        if isinstance(rules, str):
            rules = [rules]
        if rules and not any(rule.startswith(x) for x in rules):
            continue
        sigs = k.get('signature')
        if isinstance(sigs, str):
            sigs = [sigs]
        if sigs and not any(x in signature for x in sigs):
            continue
        return k
    return None


def write_replay(prop, data):
    os.makedirs(REPLAYS, exist_ok=True)
    h = hashlib.sha256(json.dumps(data, sort_keys=True).encode()).hexdigest()[:16]
    p = os.path.join(REPLAYS, '%s-%s.json' % (prop, h))
    with open(p, 'w') as f:
        json.dump(data, f, indent=1)
    return p


# ---------------------------------------------------------------------- evidence
class Evidence:
    def __init__(self, prop, tier, seed, level='exploration'):
        self.prop = prop
        self.tier = tier
        self.seed = seed
        self.level = level
        self.t0 = time.time()
        self.evaluations = 0
        self.distinct = set()
        self.samples = []
        self.extra = {}
        self.rule = ''
        self.assumptions = []
        self.violations = 0

    def write(self):
        os.makedirs(EVID, exist_ok=True)
        cov = {
            'evaluations': int(self.evaluations),
            'distinct_nontrivial': int(len(self.distinct)),
            'rule': self.rule,
            'samples': self.samples[:6],
        }
        cov.update(self.extra)
        doc = {
            'property_id': self.prop, 'tier': self.tier, 'seed': int(self.seed), 'level': self.level,
            'coverage': cov, 'assumptions': self.assumptions, 'wall_s': round(time.time() - self.t0, 2),
            'violations': int(self.violations),
        }
        p = os.path.join(EVID, '%s.json' % self.prop)
        tmp = p + '.tmp'
        with open(tmp, 'w') as f:
            json.dump(doc, f, indent=1, default=str)
        os.replace(tmp, p)
        return p


def short_trace(recs, lo=0, n=40):
    return [r.raw[:160] for r in recs[lo:lo + n]]
