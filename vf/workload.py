"""Script generation (DESIGN.md 2.3 'W' entries): random and systematic workloads over a spec."""
import random
from .spec import Index


def sites_of(ix):
    """callback sites usable for effects: (kind char, site)"""
    out = []
    for m in ix.order:
        mn = m['name']
        for sn, s in m['states'].items():
            if s['kind'] != 'sub':
                out.append(('N', '%s.%s' % (mn, sn)))
                out.append(('X', '%s.%s' % (mn, sn)))
    for g in ix.gsites:
        if g['cg_src'] is None:
            out.append(('G', g['name']))
    for a in ix.asites:
        out.append(('A', a))
    for m in ix.order:
        out.append(('C', m['name']))      # exception_caught of that machine
        out.append(('T', m['name']))      # no_transition of that machine
    return out


class Gen:
    def __init__(self, spec, rng, ix=None):
        self.spec = spec
        self.ix = ix or Index(spec)
        self.rng = rng
        self.nev = len(spec['events'])
        self.sites = sites_of(self.ix)
        self.next_id = 1
        # sites that run inside the entry cascade through an entry pseudo state (its entry, the row leaving it)
        self.ep_sites = set()
        self.ep_machines = set()      # machines that own an entry pseudo state
        for m in self.ix.order:
            if any(st['kind'] == 'entry_pt' for st in m['states'].values()):
                self.ep_machines.add(m['name'])
            for sn, st in m['states'].items():
                if st['kind'] == 'entry_pt':
                    self.ep_sites.add('%s.%s' % (m['name'], sn))
                    for row in m['table']:
                        if row['src'] == sn and row.get('_site'):
                            self.ep_sites.add(row['_site'])

    def fresh_id(self):
        i = self.next_id
        self.next_id += 1
        return i

    def mask(self):
        r = self.rng
        mode = r.random()
        if mode < 0.15:
            return (1 << 64) - 1
        if mode < 0.25:
            return 0
        dens = r.choice([0.3, 0.5, 0.7, 0.9])
        m = 0
        for b in range(64):
            if r.random() < dens:
                m |= 1 << b
        return m

    def ev(self, weights=None):
        if weights:
            return self.rng.choices(range(self.nev), weights=weights)[0]
        return self.rng.randrange(self.nev)

    def script(self, nops=20, effects=0.0, enqueue=0.0, fail=0.0, reads=False, stop=0.3, restart=0.0,
               effect_kinds='GANX', effect_targets='sr', weights=None, cg_seed=True, start_effects=True, effect_api='ppq', drain1=True, entry_point_self=True):
        r = self.rng
        self.next_id = 1
        toks = []
        self.start_effects = start_effects
        if cg_seed:
            toks.append('K%x' % r.getrandbits(48))
        if reads:
            toks.append('R1')
        if effects and start_effects and r.random() < effects:
            # effects that fire during start() (initial entry behaviours)
            cands = [s for s in self.sites if s[0] == 'N']
            for _k in range(r.choice([1, 1, 2])):
                kind, site = r.choice(cands)
                toks.append('E%s:%s:1:%s:%s:%d:%d' % (kind, site, r.choice(effect_api), r.choice(effect_targets),
                                                     self.ev(weights), self.fresh_id()))
        toks.append('S')
        running = True
        for _ in range(nops):
            if not running:
                toks.append('S')
                running = True
                continue
            x = r.random()
            if x < 0.6:
                toks.append('M%x' % self.mask())
            if effects and r.random() < effects:
                for _k in range(r.choice([1, 1, 2, 3])):
                    cands = [s for s in self.sites if s[0] in effect_kinds]
                    if not cands:
                        break
                    kind, site = r.choice(cands)
                    nth = r.choice([1, 1, 1, 2, 3])
                    api = r.choice(effect_api)
                    tgt = r.choice(effect_targets)
                    if kind == 'X' and tgt == 's':
                        tgt = 'r'
                    if not entry_point_self and tgt == 's' and ((site if kind in 'NX' else site.rsplit('.', 1)[0]) in self.ep_sites
                                                                or site.replace('#', '.').split('.')[0] in self.ep_machines):
                        # order of the entry-point continuation vs. events stored by its own entry cascade (the pseudo
                        # state, its row, or any state of another region entered with it): left open by every statement
                        tgt = 'r'
                    toks.append('E%s:%s:%d:%s:%s:%d:%d' % (kind, site, nth, api, tgt, self.ev(weights), self.fresh_id()))
            y = r.random()
            if enqueue and y < enqueue:
                toks.append('Q%d:%d' % (self.ev(weights), self.fresh_id()))
                if r.random() < 0.5:
                    toks.append(r.choice(['D', 'd', 'D']) if drain1 else 'D')
                continue
            if fail and r.random() < fail:
                toks.append('F%d' % r.choice([0, 0, 1, 1, 2, 3, 4, 5, 6, 8, 10]))
            toks.append('P%d:%d' % (self.ev(weights), self.fresh_id()))
            if restart and r.random() < restart:
                toks.append('X')
                running = False
        if running and r.random() < stop:
            toks.append('X')
        return ' '.join(toks)


def scripts_for(spec, seed, n, **kw):
    rng = random.Random(seed)
    g = Gen(spec, rng)
    out = []
    for _ in range(n):
        nops = kw.pop('nops', None) or rng.choice([8, 15, 25, 40])
        out.append(g.script(nops=nops, **kw))
        kw['nops'] = None
    kw.pop('nops', None)
    return out
