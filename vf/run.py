"""Execute scripts on harness binaries and parse the observed traces."""
import os
import subprocess
from concurrent.futures import ThreadPoolExecutor

CB_KINDS = ('G', 'A', 'EN', 'EX', 'NT', 'XC', 'DF')
RETRIES = []      # (binary, first status, status of the single re-run) of watchdog / SIGKILL endings


class Rec:
    """One trace record."""
    __slots__ = ('k', 'site', 'm', 'ev', 'id', 'ok', 'd', 'v', 'extra', 'raw')

    def __init__(self, raw):
        self.raw = raw
        f = raw.split(' ')
        self.k = f[0]
        self.site = self.m = self.ev = None
        self.id = -1
        self.ok = 1
        self.d = 0
        self.v = -1
        self.extra = f[1:]
        if self.k in CB_KINDS:
            self.site = f[1]
            self.m = f[2]
            self.ev, self.id, self.ok = parse_ev(f[3])
            self.d = int(f[4])
            self.v = int(f[5])
            self.extra = f[6:]

    def __repr__(self):
        return self.raw


def parse_ev(s):
    """'E1:41:1' | 'any(E1:41:1)' | 'W(E1:41:1)' | 'none:-1:1' | 'other:-1:1' -> (type label, id, intact)"""
    wrap = ''
    while s.endswith(')'):
        i = s.index('(')
        wrap += s[:i] + '/'
        s = s[i + 1:-1]
    p = s.split(':')
    if len(p) != 3:
        return (wrap + s, -1, 1)
    return (wrap + p[0], int(p[1]), int(p[2]))


class Result:
    __slots__ = ('script', 'recs', 'status', 'header')

    def __init__(self, script):
        self.script = script
        self.recs = []
        self.status = 'lost'
        self.header = None


def parse_output(text, scripts, results, base):
    """Parse harness stdout for scripts[base:]; returns (number of scripts completed or started, header lines)."""
    header = []
    cur = None
    idx = base - 1
    done = 0
    for line in text.split('\n'):
        if not line:
            continue
        if line.startswith('BEGIN '):
            idx += 1
            cur = results[idx]
            cur.status = 'running'
            continue
        if line.startswith('END '):
            if cur is not None:
                cur.status = 'ok'
                done += 1
            cur = None
            continue
        if cur is None:
            header.append(line)
            continue
        if line.startswith('SIGNAL '):
            cur.status = 'signal:' + line[7:]
            continue
        cur.recs.append(Rec(line))
    return idx + 1 - base, header


def run_scripts(binary, scripts, alarm=20, env=None, wrapper=None, timeout=None, _retry=True):
    """Run all scripts on one binary (sequentially, restarting after a crash).  A script whose process was
    killed from outside (wall-clock watchdog, SIGKILL) is run once more on its own: a watchdog firing on a
    loaded machine is inconclusive, only a repeatable hang is reported."""
    results = [Result(s) for s in scripts]
    base = 0
    header = None
    e = dict(os.environ)
    if env:
        e.update(env)
    while base < len(scripts):
        cmd = (wrapper or []) + [binary, '--alarm=%d' % alarm]
        inp = '\n'.join(scripts[base:]) + '\n'
        try:
            p = subprocess.run(cmd, input=inp, stdout=subprocess.PIPE, stderr=subprocess.PIPE, text=True,
                               env=e, timeout=timeout or (alarm * 4 + 0.05 * len(scripts) + 60), errors='replace')
            out, err, rc = p.stdout, p.stderr, p.returncode
        except subprocess.TimeoutExpired as ex:
            out = ex.stdout or ''
            if isinstance(out, bytes):
                out = out.decode(errors='replace')
            err, rc = 'timeout', -999
        started, hdr = parse_output(out, scripts, results, base)
        if header is None:
            header = hdr
        if started == 0:
            # the binary did not even start the first script: harness failure
            results[base].status = 'nostart:rc=%s:%s' % (rc, (err or '')[-300:])
            base += 1
            continue
        last = results[base + started - 1]
        if last.status == 'running':
            last.status = 'died:rc=%s' % rc if rc != -999 else 'hang'
            if err:
                last.recs.append(Rec('STDERR ' + err[-1500:].replace('\n', ' | ')))
            if _retry and (rc == -999 or rc == -9):
                again = run_scripts(binary, [scripts[base + started - 1]], alarm=alarm, env=env, wrapper=wrapper,
                                    timeout=max(600, (timeout or 0) * 2), _retry=False)[0]
                again.script = last.script
                RETRIES.append((binary, last.status, again.status))
                results[base + started - 1] = again
        elif rc != 0 and base + started >= len(scripts):
            # all scripts completed but exit code non-zero (e.g. leak report at exit)
            last.recs.append(Rec('EXITRC %s %s' % (rc, (err or '')[-1500:].replace('\n', ' | '))))
        base += started
    for r in results:
        r.header = header
    return results


def run_parallel(binary, scripts, workers=16, chunk=None, **kw):
    """Split scripts over several processes of the same binary."""
    if not scripts:
        return []
    n = len(scripts)
    workers = max(1, min(workers, n))
    chunk = chunk or max(1, (n + workers - 1) // workers)
    parts = [scripts[i:i + chunk] for i in range(0, n, chunk)]
    with ThreadPoolExecutor(max_workers=workers) as ex:
        outs = list(ex.map(lambda part: run_scripts(binary, part, **kw), parts))
    res = []
    for o in outs:
        res.extend(o)
    return res


def run_matrix(bins, scripts, workers=16, chunk=None, **kw):
    """bins: {cfg: binary}; run the same scripts on every binary in parallel. Returns {cfg: [Result]}."""
    cfgs = list(bins)
    per = max(1, workers // max(1, len(cfgs)))
    n = len(scripts)
    jobs = []
    for c in cfgs:
        chunk = max(1, (n + per - 1) // per)
        for i in range(0, n, chunk):
            jobs.append((c, i, scripts[i:i + chunk]))
    with ThreadPoolExecutor(max_workers=workers) as ex:
        outs = list(ex.map(lambda j: (j[0], j[1], run_scripts(bins[j[0]], j[2], **kw)), jobs))
    res = {c: [None] * n for c in cfgs}
    for c, i, rs in outs:
        res[c][i:i + len(rs)] = rs
    return res


def parse_idmap(header):
    """ID lines -> {machine: {state: id}}, idchk -> {machine: 'ok'|'BAD'}"""
    ids, chk = {}, {}
    for line in header or []:
        f = line.split(' ')
        if f[0] == 'ID':
            ids[f[1]] = {kv.split('=')[0]: int(kv.split('=')[1]) for kv in f[2:]}
        elif f[0] == 'IDCHK':
            for kv in f[1:]:
                if '=' in kv:
                    a, b = kv.split('=')
                    chk[a] = b
    return ids, chk
