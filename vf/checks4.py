"""C15: copies (and moves) are faithful and independent - differential + instance-label invariant."""
import json
import random
import zlib

from . import build, engine, run, workload, diff, checks2
from .model import parse_snap

C15_MACHINES = [('m01', None), ('m03', None), ('m04', None), ('m05', None), ('m07', None), ('m08', None), ('m10', None),
                ('m12', None), ('m13', None)]


def gen_case(h, rng, mp, ops=None):
    g = workload.Gen(h.spec0, rng)
    pre = g.script(nops=rng.choice([4, 8, 14, 20]), enqueue=0.35, stop=0.0, cg_seed=True, drain1=False).split(' ')
    if ops is None:
        # leave some events pending at the copy point
        for _ in range(rng.choice([0, 0, 1, 2, 3])):
            pre.append('Q%d:%d' % (g.ev(), g.fresh_id()))
        ops = ['C', '=']
        if mp:
            ops += ['V', 'v']
    else:
        pre.append('D')          # serialization: save points have empty queues
    op = rng.choice(ops)

    def cont(n):
        toks = ['M%x' % g.mask()]
        if rng.random() < 0.6:
            toks.append('D')
        for _ in range(n):
            if rng.random() < 0.5:
                toks.append('M%x' % g.mask())
            x = rng.random()
            if x < 0.15:
                toks.append('Q%d:%d' % (g.ev(), g.fresh_id()))
            elif x < 0.25:
                toks.append('D')
            else:
                toks.append('P%d:%d' % (g.ev(), g.fresh_id()))
        return toks
    c1 = cont(rng.choice([4, 8, 12]))
    c2 = cont(rng.choice([4, 8, 12]))
    if op in ('Wt', 'Wb'):
        cp = [op + 'AB']
    elif op == 'C':
        cp = ['CAB']
    elif op == '=':
        cp = ['NB', '=AB']
    elif op == 'V':
        cp = ['VAB']
    else:
        cp = ['NB', 'vAB']
    if op in ('C', '=', 'Wt', 'Wb'):
        main = pre + cp + ['TA', 'UB'] + c1 + ['TA', 'UA'] + c2 + ['TB']
        twin1 = pre + ['UA'] + c1
        twin2 = pre + ['UA'] + c2
    else:
        # moved-from machine: must still be destructible or assignable
        after = rng.choice([['~A'], ['=BA', 'UA'] + c2[:4] + ['~A'], []])
        main = pre + cp + ['UB'] + c1 + after
        twin1 = pre + ['UA'] + c1
        twin2 = None
    return {'op': op, 'main': ' '.join(main), 'twin1': ' '.join(twin1), 'twin2': ' '.join(twin2) if twin2 else None,
            'pending': sum(1 for t in pre if t[0] == 'Q')}


def segment(recs, use_tag, nth=1):
    """records after the nth 'USE <tag>' up to the next USE / T-snapshot boundary / copy call"""
    out = []
    seen = 0
    on = False
    for r in recs:
        if r.k == 'USE':
            if on:
                break
            if r.extra[0] == use_tag:
                seen += 1
                if seen == nth:
                    on = True
            continue
        if on:
            if r.k == 'CALL' and r.extra[0] in ('copy', 'assign', 'move', 'moveassign', 'destroy', 'saveload'):
                break
            if r.k == 'SNAP' and r.extra[0] != use_tag:
                break           # explicit snapshot (T op) of the other instance
            out.append(r)
    return out


def strip_tag(norm):
    out = []
    for x in norm:
        if x[0] in ('G', 'A', 'EN', 'EX', 'NT', 'XC'):
            out.append((x[0], x[1], x[2][2:]) + x[3:])
        elif x[0] == 'SNAP':
            out.append(('SNAP',) + x[2:])
        elif x[0] == 'CALL':
            out.append(('CALL', x[1]) + x[3:])
        else:
            out.append(x)
    return out


def snap_key(rec):
    levels, queues, extras = parse_snap(rec)
    return (tuple(sorted((p, tuple(v[0]), v[1], v[2]) for p, v in levels.items())),
            tuple(sorted(queues.items())), tuple(sorted(extras.items())))


def check_case(h, cfg, case, rmain, rt1, rt2):
    """returns list of (rule, expected, got)"""
    out = []
    recs = rmain.recs
    if rmain.status != 'ok':
        return [('crash:' + rmain.status.split(':')[0], 'normal end of script', rmain.status + ' ' + (recs[-1].raw[:300] if recs else ''))]
    ix = h.ixs[cfg]
    # (3) instance-label invariant: while one machine is driven no behaviour of the other one is invoked
    cur = 'A'
    for i, r in enumerate(recs):
        if r.k == 'USE':
            cur = r.extra[0]
        elif r.k == 'CALL' and r.extra[0] in ('copy', 'assign', 'move', 'moveassign', 'destroy', 'saveload'):
            cur = None
        elif r.k in ('G', 'A', 'EN', 'EX', 'NT', 'XC') and cur is not None:
            if r.m[0] != cur:
                out.append(('foreign-instance', 'only behaviours of instance %s while it is driven' % cur, r.raw[:200]))
                break
        elif r.k == 'CALL' and len(r.extra) > 1 and r.extra[0] in ('process', 'enqueue', 'drain', 'drain1', 'start', 'stop'):
            cur = r.extra[1]
    # (1) snapshot of the copy == snapshot of the source at the copy point
    for i, r in enumerate(recs):
        if r.k == 'CALL' and r.extra[0] in ('copy', 'assign', 'saveload'):
            snaps = [x for x in recs[i + 1:i + 5] if x.k == 'SNAP']
            if len(snaps) >= 2 and snap_key(snaps[0]) != snap_key(snaps[1]):
                out.append(('copy-snapshot', snaps[0].raw[7:300], snaps[1].raw[7:300]))
            break
        if r.k == 'CALL' and r.extra[0] in ('move', 'moveassign'):
            prev = [x for x in recs[:i] if x.k == 'SNAP' and x.extra[0] == r.extra[1]]
            snaps = [x for x in recs[i + 1:i + 4] if x.k == 'SNAP']
            if prev and snaps and snap_key(prev[-1]) != snap_key(snaps[0]):
                out.append(('move-snapshot', prev[-1].raw[7:300], snaps[0].raw[7:300]))
            break
    # (4) the undisturbed original does not change while the copy is driven
    ta = [r for r in recs if r.k == 'SNAP' and r.extra[0] == 'A']
    if case['op'] in ('C', '=', 'Wt', 'Wb'):
        # T A before and after the continuation on B are the 2 snapshots of A that follow the copy's own
        idx = [i for i, r in enumerate(recs) if r.k == 'USE' and r.extra[0] == 'B']
        if idx:
            before = [r for r in recs[:idx[0]] if r.k == 'SNAP' and r.extra[0] == 'A']
            nxt = [i for i, r in enumerate(recs) if r.k == 'USE' and r.extra[0] == 'A' and i > idx[0]]
            if nxt:
                after = [r for r in recs[idx[0]:nxt[0]] if r.k == 'SNAP' and r.extra[0] == 'A']
                if before and after and snap_key(before[-1]) != snap_key(after[-1]):
                    out.append(('original-disturbed', before[-1].raw[7:300], after[-1].raw[7:300]))
    # (2) continuation of the copy == fresh machine replaying prefix + continuation
    if rt1 is not None and rt1.status == 'ok':
        a = strip_tag(diff.normalize(segment(recs, 'B'), ix, pending=True))
        b = strip_tag(diff.normalize(segment(rt1.recs, 'A'), ix, pending=True))
        j = diff.first_diff(a, b)
        if j is not None:
            out.append(('copy-continuation', str(b[j] if j < len(b) else 'END')[:300], str(a[j] if j < len(a) else 'END')[:300]))
    if rt2 is not None and rt2.status == 'ok' and case['op'] in ('C', '=', 'Wt', 'Wb'):
        a = strip_tag(diff.normalize(segment(recs, 'A'), ix, pending=True))
        b = strip_tag(diff.normalize(segment(rt2.recs, 'A'), ix, pending=True))
        j = diff.first_diff(a, b)
        if j is not None:
            out.append(('original-continuation', str(b[j] if j < len(b) else 'END')[:300], str(a[j] if j < len(a) else 'END')[:300]))
    return out


C16_MACHINES = [(m, ['b', 'bc', 'bq', 'b11']) for m in ('m01', 'm03', 'm04', 'm05', 'm08', 'm10', 'm13')]
SER = dict(extra=['-DVF_SERIALIZE'], libs=['-lboost_serialization'])


def run_c16(tier, seed):
    return run_c15(tier, seed, prop='C16')


def run_c15(tier, seed, mode='plain', prop='C15'):
    ev = engine.Evidence(prop, tier, seed)
    ser = prop == 'C16'
    machines = C16_MACHINES if ser else C15_MACHINES
    if ser:
        ev.rule = 'distinct (machine, family, archive format, saved configuration incl. history-relevant inner positions) save points'
        ev.assumptions = ['save points have empty queues (queues are not serialized)', 'text and binary archives through std::stringstream',
                          'about half of the states and front-ends opt in through do_serialize (entry counters as data)']
    else:
        ev.rule = 'distinct (machine, family, copy operation, configuration at the copy point, pending count) copy points'
        ev.assumptions = ['copy-construction from a const reference (a non-const lvalue selects the forwarding constructor of back)',
                          'machines without guarded completion rows (their scripted guard values are keyed on per-state entry counts shared by all instances in the harness)',
                          'continuations use process_event / enqueue_event / execute_queued_events, no nested submissions']
    known = engine.load_known()
    n = 40 if tier == 'quick' else 400
    hs = {m: (engine.Harness(m, cfgs, mode=mode, **SER) if ser else engine.Harness(m, cfgs, mode=mode)) for m, cfgs in machines}
    errs = engine.build_harnesses(list(hs.values()))
    if errs:
        print('HARNESS build failure:\n' + '\n'.join(errs)[:4000])
        return 2
    violations, harness_problems, known_hits = [], [], {}
    skipped_busy = [0]
    for m, _ in machines:
        h = hs[m]
        for fam_mp in (False, True):
            cfgs = [c for c in h.cfgs if (build.FAMILY[c] == 'MP11') == fam_mp]
            if not cfgs:
                continue
            rng = random.Random((zlib.crc32(m.encode()) & 0xffff) * 7919 + seed * 2 + int(fam_mp))
            cases = [gen_case(h, rng, fam_mp, ['Wt', 'Wb'] if ser else None) for _ in range(n)]
            scripts = []
            for c in cases:
                c['i_main'] = len(scripts)
                scripts.append(c['main'])
                c['i_t1'] = len(scripts)
                scripts.append(c['twin1'])
                if c['twin2']:
                    c['i_t2'] = len(scripts)
                    scripts.append(c['twin2'])
            bins = {c: h.bins[c] for c in cfgs}
            res = run.run_matrix(bins, scripts)
            for cfg in cfgs:
                for c in cases:
                    ev.evaluations += 1
                    rmain = res[cfg][c['i_main']]
                    rt1 = res[cfg][c['i_t1']]
                    rt2 = res[cfg][c['i_t2']] if c.get('i_t2') is not None else None
                    if ser:
                        # the quantifier of C16: save points with empty queues (queues are not serialized)
                        busy = False
                        for i, r in enumerate(rmain.recs):
                            if r.k == 'CALL' and r.extra[0] == 'saveload':
                                nx = [x for x in rmain.recs[i:i + 4] if x.k == 'SNAP']
                                busy = bool(nx) and any(a + max(b, 0) for a, b in parse_snap(nx[0])[1].values())
                                break
                        if busy:
                            skipped_busy[0] += 1
                            continue
                    probs = check_case(h, cfg, c, rmain, rt1, rt2)
                    # coverage class: configuration at the copy point
                    cp = [r for r in rmain.recs if r.k == 'SNAP']
                    key = None
                    for i, r in enumerate(rmain.recs):
                        if r.k == 'CALL' and r.extra[0] in ('copy', 'assign', 'move', 'moveassign', 'saveload'):
                            nx = [x for x in rmain.recs[i:i + 5] if x.k == 'SNAP']
                            if nx:
                                key = snap_key(nx[-1])[0]
                            break
                    ev.distinct.add((m, build.FAMNAME[cfg], c['op'], str(key), min(c['pending'], 3)))
                    if not probs:
                        if len(ev.samples) < 3 and c is cases[0]:
                            ev.samples.append({'machine': m, 'cfg': cfg, 'op': c['op'], 'script': c['main'][:500],
                                               'observed_trace_tail': engine.short_trace(rmain.recs, max(0, len(rmain.recs) - 14), 14)})
                        continue
                    pend_at_copy = 0
                    for i, r in enumerate(rmain.recs):
                        if r.k == 'CALL' and r.extra[0] in ('copy', 'assign', 'move', 'moveassign'):
                            nx = [x for x in rmain.recs[i:i + 5] if x.k == 'SNAP']
                            if nx:
                                pend_at_copy = sum(a + max(b, 0) for a, b in parse_snap(nx[0])[1].values())
                            break
                    for rule, exp, got in probs[:1]:
                        sig = '%s|%s|%s|pending-at-copy=%s' % (m, exp[:120], got[:120], 'yes' if pend_at_copy else 'no')
                        k = engine.match_known(known, prop, build.FAMNAME[cfg], rule, sig)
                        if k:
                            known_hits[k['id']] = known_hits.get(k['id'], 0) + 1
                            continue
                        rp = engine.write_replay(prop, {'kind': 'c15', 'ser': ser, 'property': prop, 'machine': m, 'cfg': cfg, 'mode': mode,
                                                        'case': {k2: c[k2] for k2 in ('op', 'main', 'twin1', 'twin2', 'pending')},
                                                        'rule': rule, 'expected': exp, 'got': got})
                        violations.append((rp, m, cfg, rule, exp, got))
    ev.extra.update({'known_finding_hits': known_hits, 'build_mode': mode, 'cases_skipped_pending_at_save': skipped_busy[0]})
    return checks2.report(prop, ev, violations, harness_problems, known, known_hits, tier, 20, 40)


def replay_c15(path):
    d = json.load(open(path))
    h = engine.Harness(d['machine'], [d['cfg']], mode=d.get('mode', 'plain'), **(SER if d.get('ser') else {}))
    errs = engine.build_harnesses([h])
    if errs:
        print('\n'.join(errs))
        return 2
    c = d['case']
    scripts = [c['main'], c['twin1']] + ([c['twin2']] if c['twin2'] else [])
    res = run.run_matrix(h.bins, scripts)[d['cfg']]
    probs = check_case(h, d['cfg'], c, res[0], res[1], res[2] if len(res) > 2 else None)
    for r in res[0].recs[-60:]:
        print('  ', r.raw[:200])
    if not probs:
        print('ACCEPTED: copy case is clean on the current tree')
        return 0
    for p in probs:
        print('REJECTED rule=%s expected=%s got=%s' % p)
    print('VIOLATION property=%s replay=%s' % (d['property'], path))
    return 1


def setup():
    return engine.build_harnesses([engine.Harness(m, cfgs) for m, cfgs in C15_MACHINES] +
                                  [engine.Harness(m, cfgs, **SER) for m, cfgs in C16_MACHINES])
