"""Flat spec -> PlantUML front-end harness (C14): the machine is written as a PlantUML string, guards and
actions are Guard<by_name>/Action<by_name> specialisations that log under the same site names as the functor
front-end, so the traces of both front-ends must be identical."""
import json
import os

from . import build, engine, run, checks, diff
from .spec import Index, guard_atoms

PUML_MACHINES = ['m15', 'm16', 'm18']
PUML_CFGS = ['b', 'b11', 'mf']


def guard_text(g, sites, top=True, parent=None):
    if isinstance(g, int):
        return 'g%d' % next(sites)
    if g[0] == 'not':
        inner = guard_text(g[1], sites, False, 'not')
        return '!' + inner
    a = guard_text(g[1], sites, False, g[0])
    b = guard_text(g[2], sites, False, g[0])
    op = '&&' if g[0] == 'and' else '||'
    txt = '%s %s %s' % (a, op, b)
    # parentheses only where C++ precedence needs them
    if parent == 'and' and g[0] == 'or':
        return '(' + txt + ')'
    if parent == 'not':
        return '(' + txt + ')'
    return txt


def generate(spec):
    import copy
    spec = copy.deepcopy(spec)
    ix = Index(spec)
    m = spec['root']
    assert not any(s['kind'] != 'simple' for s in m['states'].values()), 'flat machines only'
    mn = m['name']
    out = []
    w = out.append
    w('// generated PlantUML front-end harness for spec %s' % spec['name'])
    w('#include "vf_rt.hpp"')
    w('#include "vf_kits.hpp"')
    w('#include <boost/msm/event_traits.hpp>   // boost::any as Kleene event (the PlantUML "*" event) for every back-end')
    w('#include <boost/msm/front/puml/puml.hpp>')
    w('#include <memory>')
    w('namespace mpl = boost::mpl;')
    w('namespace boost::msm::front::puml {')
    for ev in spec['events']:
        w('template <> struct Event<by_name("%s")> : vf::EvBase {' % ev)
        w('    Event() {}')
        w('    explicit Event(int i) : vf::EvBase(i) {}')
        w('    static const char* vf_name() { return "%s"; }' % ev)
        w('};')
    for i, g in enumerate(ix.gsites):
        w('template <> struct Guard<by_name("g%d")> : vf::Gd<%d,%d> {};' % (i, g['atom'], i))
    for i, a in enumerate(ix.asites):
        w('template <> struct Action<by_name("a%d")> : vf::Act<%d> {};' % (i, i))
    for sn in m['states']:
        site = '%s.%s' % (mn, sn)
        w('template <> struct Action<by_name("en_%s")> { template <class E, class F, class S, class T> void operator()(E const& e, F& f, S&, T&) { vf::on_entry_cb("%s", e, f); } };' % (sn, site))
        w('template <> struct Action<by_name("ex_%s")> { template <class E, class F, class S, class T> void operator()(E const& e, F& f, S&, T&) { vf::on_exit_cb("%s", e, f); } };' % (sn, site))
    w('}')
    w('using namespace boost::msm::front::puml;')
    for ev in spec['events']:
        w('typedef Event<by_name("%s")> %s;' % (ev, ev))
    w('namespace vf {')
    w('const SiteInfo& guard_site(int i) {')
    w('    static const SiteInfo t[] = {')
    for g in ix.gsites:
        w('        {"%s", %s},' % (g['name'], ('"%s"' % g['cg_src']) if g['cg_src'] else '0'))
    w('        {"", 0} };')
    w('    return t[i];')
    w('}')
    w('const char* action_site(int i) {')
    w('    static const char* t[] = {')
    for a in ix.asites:
        w('        "%s",' % a)
    w('        "" };')
    w('    return t[i];')
    w('}')
    w('}')
    # the PlantUML text
    lines = ['', '@startuml %s' % mn, 'skinparam linetype polyline', 'state %s{' % mn]
    for init in m['regions']:
        lines.append('[*] -> %s' % init)
    arrows = ['->', '-->', '--->']
    for k, r in enumerate(m['table']):
        src = r['src']
        internal = r['tgt'] is None
        tgt = src if internal else r['tgt']
        ev = '' if r['ev'] is None else ('*' if r['ev'] == 'any' else r['ev'])
        line = '%s %s %s : %s%s' % (src, arrows[k % 3], tgt, '-' if internal else '', ev)
        if r['actions'] == 'Defer':
            acts = ['defer']
        else:
            acts = ['a%d' % i for i in r['_asites']]
        gtxt = guard_text(r['guard'], iter(r['_gsites'])) if r['guard'] is not None else ''
        a_part = (' / ' + (', ' if k % 2 else ',').join(acts)) if acts else ''
        g_part = (' [' + gtxt + ']') if gtxt else ''
        if acts and gtxt and k % 4 == 3:
            line += g_part + a_part
        else:
            line += a_part + g_part
        lines.append(line)
    for sn in m['states']:
        lines.append('%s : entry en_%s' % (sn, sn))
        lines.append('%s : exit ex_%s' % (sn, sn))
    lines += ['}', '@enduml', '']
    text = '\n            '.join(lines)
    w('struct %s_ : boost::msm::front::state_machine_def<%s_> {' % (mn, mn))
    w('    static const char* vf_site() { return ".%s"; }' % mn)
    w('    static const char* vf_mname() { return "%s"; }' % mn)
    w('    template <class Ev, class Fsm> void on_entry(Ev const& e, Fsm& f) { vf::on_entry_cb(vf_site(), e, f); }')
    w('    template <class Ev, class Fsm> void on_exit(Ev const& e, Fsm& f) { vf::on_exit_cb(vf_site(), e, f); }')
    w('    template <class Fsm, class Ev> void no_transition(Ev const& e, Fsm& f, int s) { vf::no_transition_cb("%s", e, f, s); }' % mn)
    w('    template <class Fsm, class Ev> void exception_caught(Ev const& e, Fsm& f, std::exception& x) { vf::exception_cb("%s", e, f, x); }' % mn)
    if any(r['actions'] == 'Defer' for r in m['table']):
        w('    typedef int activate_deferred_events;')
    w('    BOOST_MSM_PUML_DECLARE_TABLE(R"(%s)")' % text)
    w('};')
    w('typedef vf::Kit::sm<%s_, vf::HistNone>::type %s;' % (mn, mn))
    w('#if defined(VF_FAM_BACK11)')
    w('#define VF_EV(T, name) T name(id)')
    w('#else')
    w('#define VF_EV(T, name) const T name(id)')
    w('#endif')
    w('namespace vf {')
    w('template <> void Submit<%s>::go(%s& fsm, char api, int ev, int id) {' % (mn, mn))
    w('    switch (ev) {')
    for i, ev in enumerate(spec['events']):
        w('    case %d: { VF_EV(%s, e); if (api == \'p\') fsm.process_event(e); else fsm.enqueue_event(e); break; }' % (i, ev))
    w('    default: break; }')
    w('}')
    w('template <> std::string Reads<%s>::get(%s&) { return ""; }' % (mn, mn))
    w('}')
    w('struct VFH {')
    w('    typedef %s Root;' % mn)
    w('    static const int n_ev = %d;' % len(spec['events']))
    w('    static void prepare(Root& root) { vf::Kit::prepare(root); %s }' % ('vf::Kit::prepare_defq(root);' if any(r['actions'] == 'Defer' for r in m['table']) else ''))
    w('    static int process(Root& root, int ev, int id) {')
    w('        switch (ev) {')
    for i, ev in enumerate(spec['events']):
        w('        case %d: { VF_EV(%s, e); return (int)root.process_event(e); }' % (i, ev))
    w('        default: return -1; }')
    w('    }')
    w('    static void enqueue(Root& root, int ev, int id) {')
    w('        switch (ev) {')
    for i, ev in enumerate(spec['events']):
        w('        case %d: { VF_EV(%s, e); root.enqueue_event(e); break; }' % (i, ev))
    w('        default: break; }')
    w('    }')
    w('    static void idmap(std::string&) {}')
    w('    static void snap(Root& root, std::string& o) {')
    w('        char tmp[32]; o += "L %s=";' % mn)
    for r in range(len(m['regions'])):
        w('        snprintf(tmp, sizeof tmp, "%s%%d", vf::Kit::cur(root, %d)); o += tmp;' % (',' if r else '', r))
    w('        o += "::";')
    w('    }')
    w('    static void visit(Root&, std::string&) {}')
    w('    static void idcheck(Root&, std::string& o) { o += " n/a"; }')
    w('    static void register_any() {')
    for ev in spec['events']:
        w('        vf::register_any<%s>();' % ev)
    w('    }')
    w('};')
    w('#include "vf_driver.hpp"')
    w('int main(int argc, char** argv) { return vf::run_main<VFH>(argc, argv); }')
    return '\n'.join(out) + '\n'


class PumlHarness:
    def __init__(self, name, cfgs):
        self.name = name
        self.spec0 = engine.load_spec(name)
        self.cfgs = [c for c in cfgs if c in self.spec0.get('configs', build.CONFIGS)]
        self.bins = {}
        self.ix = Index(self.spec0)

    def jobs(self):
        src = generate(self.spec0)
        return [dict(name=self.spec0['name'] + 'p', src=src, cfg=c, mode='plain', switch=0, harness=self, extra=(), libs=()) for c in self.cfgs]


def build_all(hs):
    jobs = []
    for h in hs:
        jobs += h.jobs()
    errs = []
    for j, b, e in build.build_many(jobs):
        if b is None:
            errs.append('%s/%s: %s' % (j['name'], j['cfg'], e[-1500:]))
        else:
            j['harness'].bins[j['cfg']] = b
    return errs


def puml_machines(tier, seed):
    """curated M15 / M16 plus generated flat machines with guard trees from the documented guard grammar"""
    out = list(PUML_MACHINES) + ['pgen:201', 'pgen:202']
    if tier == 'thorough':
        out += ['pgen:%d' % k for k in range(2020, 2030)]      # fixed set, see checks.THOROUGH_GEN
    return out


def puml_machine_part(prop, tier, seed, ev, violations, known, known_hits):
    n = 60 if tier == 'quick' else 600
    problems = []
    PUML_MACHINES = puml_machines(tier, seed)
    ph = {m: PumlHarness(m, PUML_CFGS) for m in PUML_MACHINES}
    fh = {m: engine.Harness(m, PUML_CFGS) for m in PUML_MACHINES}
    errs = build_all(list(ph.values())) + engine.build_harnesses(list(fh.values()))
    if errs:
        return [('puml machine build', e[-600:]) for e in errs[:2]]
    pairs = 0
    for m in PUML_MACHINES:
        for wi, kw in enumerate([dict(), dict(effects=0.25, enqueue=0.15, effect_api='p'), dict(fail=0.3)]):
            scripts = checks.scripts_for(fh[m], seed + 3 * wi, n, dict(kw, drain1=False))
            ra = run.run_matrix(fh[m].bins, scripts)
            rb = run.run_matrix(ph[m].bins, scripts)
            for cfg in ph[m].cfgs:
                for i in range(len(scripts)):
                    ev.evaluations += 1
                    a, b = ra[cfg][i], rb[cfg][i]
                    if a.status != 'ok':
                        continue
                    na = diff.normalize(a.recs, fh[m].ixs[cfg])
                    if b.status != 'ok':
                        j, exp, got = 0, 'normal end of script', b.status
                    else:
                        nb = diff.normalize(b.recs, fh[m].ixs[cfg])
                        j = diff.first_diff(na, nb)
                        if j is None:
                            pairs += 1
                            if sum(1 for x in na if x[0] == 'G') >= 2:
                                ev.distinct.add(('puml-machine', m, cfg, wi, i))
                            continue
                        exp = str(na[j] if j < len(na) else 'END')
                        got = str(nb[j] if j < len(nb) else 'END')
                    sig = '%s|%s|%s' % (m, exp[:100], got[:100])
                    k = engine.match_known(known, prop, build.FAMNAME[cfg], 'puml-frontend-differential', sig)
                    if k:
                        known_hits[k['id']] = known_hits.get(k['id'], 0) + 1
                        continue
                    rp = engine.write_replay(prop, {'kind': 'c14p', 'property': prop, 'machine': m, 'cfg': cfg, 'script': scripts[i],
                                                    'rule': 'puml-frontend-differential', 'expected': exp, 'got': got})
                    violations.append((rp, m, 'puml/%s' % cfg, 'puml-frontend-differential', exp, got))
    ev.extra['puml_machine_trace_pairs_equal'] = pairs
    return problems


def replay(d, path):
    ph = PumlHarness(d['machine'], [d['cfg']])
    fh = engine.Harness(d['machine'], [d['cfg']])
    errs = build_all([ph]) + engine.build_harnesses([fh])
    if errs:
        print('\n'.join(errs))
        return 2
    a = run.run_matrix(fh.bins, [d['script']])[d['cfg']][0]
    b = run.run_matrix(ph.bins, [d['script']])[d['cfg']][0]
    na = diff.normalize(a.recs, fh.ixs[d['cfg']])
    nb = diff.normalize(b.recs, fh.ixs[d['cfg']])
    j = diff.first_diff(na, nb)
    if j is None and b.status == 'ok':
        print('ACCEPTED: functor and PlantUML front-ends give identical traces')
        return 0
    j = j or 0
    for k in range(max(0, j - 8), j + 3):
        print('%s %-100s | %s' % ('>>' if k == j else '  ', str(na[k])[:100] if k < len(na) else 'END', str(nb[k])[:100] if k < len(nb) else 'END'))
    print('VIOLATION property=C14 replay=%s' % path)
    return 1


def setup():
    ms = puml_machines('quick', 1)
    return build_all([PumlHarness(m, PUML_CFGS) for m in ms]) + engine.build_harnesses([engine.Harness(m, PUML_CFGS) for m in ms])
