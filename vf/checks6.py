"""C14: front-end equivalence (behavioural differential between front-end families) and the
PlantUML tokenizer oracle."""
import hashlib
import json
import os
import random
import subprocess

from . import build, engine, run, checks, checks2, diff, puml

C14_MACHINES = ['m01', 'm02', 'm03', 'm04', 'm05', 'm06', 'm08', 'm09', 'm10', 'm15']
VARIANTS = ['functor', 'basic', 'row2']
SAN_ENV = {'ASAN_OPTIONS': 'abort_on_error=1:detect_leaks=0', 'UBSAN_OPTIONS': 'print_stacktrace=1:halt_on_error=1'}


def build_puml_test():
    srcp = os.path.join(build.RT, 'puml_test.cpp')
    src = open(srcp).read()
    line = ['clang++-14', '-std=c++20', '-O1', '-g', '-w', '-fsanitize=address,undefined', '-fno-sanitize-recover=all',
            '-I' + os.path.join(build.REPO, 'include')]
    key = hashlib.sha256(('\0'.join([build.repo_hash(), src] + line)).encode()).hexdigest()[:24]
    d = os.path.join(build.CACHE, key)
    binp = os.path.join(d, 'bin')
    if os.path.exists(binp):
        return binp, ''
    os.makedirs(d, exist_ok=True)
    p = subprocess.run(line + [srcp, '-o', binp + '.tmp'], stdout=subprocess.PIPE, stderr=subprocess.STDOUT, text=True)
    if p.returncode != 0:
        return None, p.stdout[-3000:]
    os.rename(binp + '.tmp', binp)
    return binp, ''


def tokenizer_part(prop, tier, seed, ev, violations, known, known_hits):
    """generated documents / rows -> parse functions -> field-by-field comparison, under ASan+UBSan"""
    binp, err = build_puml_test()
    if not binp:
        return [('puml_test build', err[-500:])]
    n = 6000 if tier == 'quick' else 200000
    chunk = 2000
    rng = random.Random(seed * 104729 + 17)
    g = puml.Gen(rng)
    done = 0
    shapes = set()
    problems = []
    while done < n:
        cases, inp = [], []
        for _ in range(min(chunk, n - done)):
            if rng.random() < 0.5:
                t, e = g.row()
                cases.append(('R', t, e))
                inp.append('R' + puml.esc(t))
            else:
                t, e = g.document()
                cases.append(('D', t, e))
                inp.append('D' + puml.esc(t))
        done += len(cases)
        p = subprocess.run([binp], input='\n'.join(inp) + '\n', stdout=subprocess.PIPE, stderr=subprocess.PIPE, text=True,
                           env=dict(os.environ, **SAN_ENV))
        blocks, cur = [], []
        for l in p.stdout.split('\n'):
            if l.startswith('END '):
                blocks.append(cur)
                cur = []
            elif l:
                cur.append(l)
        if p.returncode != 0 or len(blocks) != len(cases):
            k = len(blocks)
            rp = engine.write_replay(prop, {'kind': 'puml', 'property': prop, 'text': cases[k][1] if k < len(cases) else '', 'what': cases[k][0] if k < len(cases) else '',
                                            'rule': 'tokenizer-sanitizer', 'expected': 'clean run', 'got': p.stderr[-2500:]})
            violations.append((rp, 'puml tokenizer', 'asan', 'tokenizer-sanitizer', 'no sanitizer report', p.stderr[-300:]))
            break
        for (kind, text, exp), blk in zip(cases, blocks):
            ev.evaluations += 1
            probs = []
            if kind == 'R':
                tag, d = puml.parse_fields(blk[0])
                probs = [('parse_row.' + x[0], x[1], x[2]) for x in puml.check_transition(d, exp)]
                shapes.add(('row', text.count('-') if text.count('-') < 6 else 6, bool(exp['ev']), len(exp['actions']), bool(exp['guard']),
                            '(' in exp['guard'], exp['tgt'] == '', '[' in text and '/' in text and text.index('[') < text.index('/')))
            else:
                tag, d = puml.parse_fields(blk[0])
                if int(d['ct']) != exp['arrows']:
                    probs.append(('count_transitions', exp['arrows'], d['ct']))
                if int(d['ci']) != len(exp['inits']):
                    probs.append(('count_inits', len(exp['inits']), d['ci']))
                if int(d['cx']) != exp['terminates']:
                    probs.append(('count_terminates', exp['terminates'], d['cx']))
                ts = [puml.parse_fields(l) for l in blk[1:] if l[0] == 'T']
                ins = [puml.parse_fields(l)[1].get('init') for l in blk[1:] if l[0] == 'I']
                if len(ts) != len(exp['transitions']):
                    probs.append(('number-of-transitions', len(exp['transitions']), len(ts)))
                for (tg, dd), e in zip(ts, exp['transitions']):
                    probs += [('parse_stt.' + x[0], x[1], x[2]) for x in puml.check_transition(dd, e)]
                if ins != exp['inits']:
                    probs.append(('parse_inits', exp['inits'], ins))
                shapes.add(('doc', len(exp['inits']), min(len(exp['transitions']), 15), exp['terminates']))
            if probs:
                rule = 'tokenizer:' + probs[0][0]
                sig = 'puml|%s|%s' % (probs[0][1], probs[0][2])
                k = engine.match_known(known, prop, None, rule, sig)
                if k:
                    known_hits[k['id']] = known_hits.get(k['id'], 0) + 1
                    continue
                rp = engine.write_replay(prop, {'kind': 'puml', 'property': prop, 'what': kind, 'text': text, 'rule': rule,
                                                'expected': str(probs[0][1]), 'got': str(probs[0][2]), 'all': [str(x) for x in probs[:6]]})
                violations.append((rp, 'puml tokenizer', kind, rule, probs[0][1], probs[0][2]))
    for s in shapes:
        ev.distinct.add(('tok',) + s)
    ev.extra['tokenizer_cases'] = done
    ev.extra['tokenizer_line_shapes'] = len(shapes)
    if len(ev.samples) < 4:
        t, e = puml.Gen(random.Random(seed)).row()
        ev.samples.append({'tokenizer_row': t, 'intended_fields': e})
    return problems


def variant_part(prop, tier, seed, ev, violations, known, known_hits):
    cfgs = ['b', 'b11', 'mf'] if tier == 'quick' else None
    n = 40 if tier == 'quick' else 400
    hs = {}
    for m in C14_MACHINES:
        for v in VARIANTS:
            hs[(m, v)] = engine.Harness(m, cfgs, variant=v)
    errs = engine.build_harnesses(list(hs.values()))
    if errs:
        return [('variant build', e[-400:]) for e in errs[:3]]
    problems = []
    pairs = 0
    for m in C14_MACHINES:
        h0 = hs[(m, 'functor')]
        wls = [dict(), dict(fail=0.3)]
        for wi, kw in enumerate(wls):
            scripts = checks.scripts_for(h0, seed + wi, n, kw)
            res = {v: run.run_matrix(hs[(m, v)].bins, scripts) for v in VARIANTS}
            # the member-function variants must also be accepted by the reference model (guard expressions!)
            for v in VARIANTS[1:]:
                verd = engine.accept_all(hs[(m, v)], res[v])
                for cfg in hs[(m, v)].cfgs:
                    for i, x in enumerate(verd[cfg]):
                        ev.evaluations += 1
                        for key in x['cov'].get('C01', [])[:50]:
                            pass
                        if not x['ok'] and 'HARNESS' in x['tags']:
                            problems.append((m, v, cfg, x['rule'], x['got'][:200]))
                        elif not x['ok'] and 'C14' in x['tags']:
                            rp = engine.write_replay(prop, {'kind': 'c14v', 'property': prop, 'machine': m, 'cfg': cfg, 'variant': v,
                                                            'script': scripts[i], 'rule': x['rule'], 'expected': x['expected'], 'got': x['got']})
                            violations.append((rp, m, '%s/%s' % (v, cfg), x['rule'], x['expected'], x['got']))
            for cfg in h0.cfgs:
                for i in range(len(scripts)):
                    base = res['functor'][cfg][i]
                    if base.status != 'ok':
                        continue
                    a = [r.raw for r in base.recs]
                    if sum(1 for r in base.recs if r.k == 'G') >= 2:
                        ev.distinct.add((m, cfg, wi, i))
                    for v in VARIANTS[1:]:
                        pairs += 1
                        o = res[v][cfg][i]
                        b = [r.raw for r in o.recs]
                        if o.status != 'ok' or a != b:
                            j = diff.first_diff(a, b)
                            exp = a[j] if j is not None and j < len(a) else 'END'
                            got = (b[j] if j is not None and j < len(b) else 'END') if o.status == 'ok' else o.status
                            sig = '%s|%s|%s' % (m, exp[:100], got[:100])
                            k = engine.match_known(known, prop, build.FAMNAME[cfg], 'frontend-differential', sig)
                            if k:
                                known_hits[k['id']] = known_hits.get(k['id'], 0) + 1
                                continue
                            rp = engine.write_replay(prop, {'kind': 'c14v', 'property': prop, 'machine': m, 'cfg': cfg, 'variant': v,
                                                            'script': scripts[i], 'rule': 'frontend-differential', 'expected': exp, 'got': got})
                            violations.append((rp, m, '%s/%s' % (v, cfg), 'frontend-differential', exp, got))
            if wi == 0 and len(ev.samples) < 2:
                ev.samples.append({'machine': m, 'variants': VARIANTS, 'script': scripts[0][:400],
                                   'trace_head_all_variants_identical': engine.short_trace(res['functor'][h0.cfgs[0]][0].recs, 0, 14)})
    ev.extra['frontend_trace_pairs_compared'] = pairs
    return problems


EUML_CFGS = ['b', 'bc', 'b11', 'mf']


def euml_machines(tier, seed):
    """flat machines written once with functor rows and once as an eUML transition-table expression
    (BOOST_MSM_EUML_DECLARE_TRANSITION_TABLE inside the same state_machine_def): curated M15 / M18 and generated ones"""
    out = ['m15', 'm18', 'pgen:201', 'pgen:202']
    if tier == 'thorough':
        out += ['pgen:%d' % k for k in range(2020, 2030)]      # fixed set, see checks.THOROUGH_GEN
    return out


def euml_part(prop, tier, seed, ev, violations, known, known_hits):
    n = 60 if tier == 'quick' else 600
    ms = euml_machines(tier, seed)
    fh = {m: engine.Harness(m, EUML_CFGS) for m in ms}
    eh = {m: engine.Harness(m, EUML_CFGS, variant='euml') for m in ms}
    errs = engine.build_harnesses(list(fh.values()) + list(eh.values()))
    if errs:
        return [('euml build', e[-600:]) for e in errs[:2]]
    pairs = 0
    for m in ms:
        for wi, kw in enumerate([dict(), dict(effects=0.25, enqueue=0.15), dict(fail=0.3)]):
            scripts = checks.scripts_for(fh[m], seed + 5 * wi, n, kw)
            ra = run.run_matrix(fh[m].bins, scripts)
            rb = run.run_matrix(eh[m].bins, scripts)
            for cfg in EUML_CFGS:
                for i in range(len(scripts)):
                    ev.evaluations += 1
                    if ra[cfg][i].status != 'ok':
                        continue
                    a = [r.raw for r in ra[cfg][i].recs]
                    b = [r.raw for r in rb[cfg][i].recs]
                    if rb[cfg][i].status == 'ok' and a == b:
                        pairs += 1
                        if sum(1 for r in ra[cfg][i].recs if r.k == 'G') >= 2:
                            ev.distinct.add(('euml-table', m, cfg, wi, i))
                        continue
                    j = diff.first_diff(a, b)
                    exp = a[j] if j is not None and j < len(a) else 'END'
                    got = (b[j] if j is not None and j < len(b) else 'END') if rb[cfg][i].status == 'ok' else rb[cfg][i].status
                    sig = '%s|%s|%s' % (m, exp[:100], got[:100])
                    k = engine.match_known(known, prop, build.FAMNAME[cfg], 'euml-frontend-differential', sig)
                    if k:
                        known_hits[k['id']] = known_hits.get(k['id'], 0) + 1
                        continue
                    rp = engine.write_replay(prop, {'kind': 'c14v', 'property': prop, 'machine': m, 'cfg': cfg, 'variant': 'euml',
                                                    'script': scripts[i], 'rule': 'euml-frontend-differential', 'expected': exp, 'got': got})
                    violations.append((rp, m, 'euml/%s' % cfg, 'euml-frontend-differential', exp, got))
    ev.extra['euml_table_trace_pairs_equal'] = pairs
    return []


def run_c14(tier, seed):
    prop = 'C14'
    ev = engine.Evidence(prop, tier, seed)
    ev.rule = ('tokenizer: distinct line / document shapes (number of dashes, parts present, part order, guard with parentheses, internal form; '
               'regions x transitions x terminate lines); front-ends: distinct (machine, configuration, script) triples with >= 2 guard evaluations '
               'whose traces were compared across front-end families')
    ev.assumptions = ['front-end families compared: functor Row/Internal with none, ActionSequence_, And_/Or_/Not_ | basic member-function rows '
                      '(row, a_row, g_row, _row, irow family, internal<> family) | row2 family; state-local internal tables stay functor based; '
                      'PlantUML machines: curated M15 / M16 / M18 and generated flat machines (guards from the documented guard grammar, one group)',
                      'eUML: the transition-table expression (BOOST_MSM_EUML_DECLARE_TRANSITION_TABLE with euml_state / euml_event / euml_action terminals, &&, ||, !, action sequences by comma, internal rows) on flat machines; the eUML state-machine and state declaration macros and the eUML action language are not covered',
                      'tokenizer documents follow the documented frame (@startuml ... state X{ ... } @enduml)']
    known = engine.load_known()
    violations, known_hits = [], {}
    problems = tokenizer_part(prop, tier, seed, ev, violations, known, known_hits)
    problems += variant_part(prop, tier, seed, ev, violations, known, known_hits)
    from . import gen_puml
    problems += gen_puml.puml_machine_part(prop, tier, seed, ev, violations, known, known_hits)
    problems += euml_part(prop, tier, seed, ev, violations, known, known_hits)
    ev.extra['known_finding_hits'] = known_hits
    return checks2.report(prop, ev, violations, problems, known, known_hits, tier, 30, 60)


def replay_c14(path):
    d = json.load(open(path))
    if d['kind'] == 'puml':
        binp, err = build_puml_test()
        inp = d['what'] + puml.esc(d['text']) + '\n'
        p = subprocess.run([binp], input=inp, stdout=subprocess.PIPE, stderr=subprocess.PIPE, text=True, env=dict(os.environ, **SAN_ENV))
        print(d['text'])
        print(p.stdout[-3000:], p.stderr[-2000:])
        print('intended:', d.get('expected'), 'recorded answer:', d.get('got'))
        print('(re-run ./check C14 to judge the current tree; replay shows the library answer for the recorded text)')
        return 0 if p.returncode == 0 else 1
    if d['kind'] == 'c14p':
        from . import gen_puml
        return gen_puml.replay(d, path)
    hs = [engine.Harness(d['machine'], [d['cfg']], variant=v) for v in ('functor', d['variant'])]
    errs = engine.build_harnesses(hs)
    if errs:
        print('\n'.join(errs))
        return 2
    a = [r.raw for r in run.run_matrix(hs[0].bins, [d['script']])[d['cfg']][0].recs]
    b = [r.raw for r in run.run_matrix(hs[1].bins, [d['script']])[d['cfg']][0].recs]
    j = diff.first_diff(a, b)
    if j is None:
        print('ACCEPTED: identical traces for functor and %s front-ends' % d['variant'])
        return 0
    for k in range(max(0, j - 8), j + 3):
        print('%s %-100s | %s' % ('>>' if k == j else '  ', a[k][:100] if k < len(a) else 'END', b[k][:100] if k < len(b) else 'END'))
    print('VIOLATION property=C14 replay=%s' % path)
    return 1


def setup():
    errs = []
    b, e = build_puml_test()
    if not b:
        errs.append(e)
    hs = [engine.Harness(m, ['b', 'b11', 'mf'], variant=v) for m in C14_MACHINES for v in VARIANTS]
    errs += engine.build_harnesses(hs)
    from . import gen_puml
    errs += gen_puml.setup()
    ms = euml_machines('quick', 1)
    errs += engine.build_harnesses([engine.Harness(m, EUML_CFGS) for m in ms] + [engine.Harness(m, EUML_CFGS, variant='euml') for m in ms])
    return errs
