"""Run-time oracle for the PlantUML tokenizer (C14, DESIGN.md 3): documents are generated from the
documented line grammar together with the fields they are meant to carry; rt/puml_test.cpp calls the
library's parsing functions on them and the answers are compared field by field."""
import random

IDENT_HEAD = 'ABCDEFGHIJKLMNOPQRSTUVWXYZabcdefghijklmnopqrstuvwxyz_'
IDENT_TAIL = IDENT_HEAD + '0123456789'


class Gen:
    def __init__(self, rng):
        self.r = rng

    def ident(self, n=None):
        r = self.r
        n = n or r.choice([1, 2, 4, 7, 12])
        return r.choice(IDENT_HEAD) + ''.join(r.choice(IDENT_TAIL) for _ in range(n - 1))

    def ws(self, allow_empty=True):
        r = self.r
        k = r.choice([0, 1, 1, 1, 2, 5]) if allow_empty else r.choice([1, 1, 2, 5])
        return ''.join(r.choice('  \t') for _ in range(k))

    def arrow(self):
        return '-' * self.r.choice([1, 1, 2, 3, 4]) + '>'

    def guard(self, names):
        r = self.r

        def atom():
            a = r.choice(names)
            return ('!' + self.ws() + a) if r.random() < 0.3 else a

        def simple(k):
            parts = [atom()]
            for _ in range(k):
                parts.append(r.choice(['&&', '||']))
                parts.append(atom())
            return (self.ws().join(parts)) if r.random() < 0.3 else ' '.join(parts)
        shape = r.random()
        if shape < 0.45:
            return atom()
        if shape < 0.75:
            return simple(r.choice([1, 2]))
        # one level of parentheses
        inner = '(' + self.ws() + simple(1) + self.ws() + ')'
        if r.random() < 0.5:
            return atom() + ' ' + r.choice(['&&', '||']) + ' ' + inner
        return inner + ' ' + r.choice(['&&', '||']) + ' ' + atom()

    def transition_line(self, states, events, actions, guards, style):
        """returns (text, expected dict)"""
        r = self.r
        src = r.choice(states)
        internal = r.random() < 0.15
        tgt = src if internal else r.choice(states)
        evk = r.random()
        if evk < 0.08 and not internal:
            ev = ''
        elif evk < 0.16:
            ev = '*'
        else:
            ev = r.choice(events)
        acts = [r.choice(actions) for _ in range(r.choice([0, 0, 1, 1, 2, 3]))]
        g = self.guard(guards) if r.random() < 0.5 else ''
        line = self.ws() + src + self.ws(False) + self.arrow() + self.ws() + tgt
        has_tail = bool(ev or acts or g or internal)
        if has_tail or r.random() < 0.3:
            line += self.ws() + ':' + self.ws() + ('-' if internal else '') + ev
            a_txt = ''
            if acts:
                sep = ',' + (self.ws() if style != 'tight' else '')
                a_txt = self.ws() + '/' + self.ws() + sep.join(acts)
            g_txt = (self.ws() + '[' + self.ws() + g + self.ws() + ']') if g else ''
            if acts and g and r.random() < 0.35:
                line += g_txt + a_txt            # guard before actions
            else:
                line += a_txt + g_txt
        line += self.ws()
        exp = {'src': src, 'tgt': '' if internal else tgt, 'ev': ev, 'guard': g.strip(), 'actions': acts}
        return line, exp

    def document(self):
        r = self.r
        nstates = r.choice([2, 3, 5, 8])
        states = []
        while len(states) < nstates:
            s = self.ident()
            if s not in states and s not in ('flag', 'entry', 'exit', 'defer', 'state', 'skinparam'):
                states.append(s)
        events = [self.ident() for _ in range(r.choice([1, 3, 6]))]
        actions = [self.ident() for _ in range(r.choice([1, 3, 5]))] + ['defer']
        guards = [self.ident() for _ in range(r.choice([1, 2, 4]))]
        flags = [self.ident() for _ in range(2)]
        regions = r.choice([1, 1, 2, 3])
        style = r.choice(['loose', 'tight'])
        name = self.ident()
        lines = ['', '%s@startuml %s' % (self.ws(), name), '%sskinparam linetype polyline' % self.ws(), '%sstate %s{' % (self.ws(), name)]
        exp_t, exp_i, exp_x = [], [], 0
        ntr = r.choice([0, 1, 3, 6, 10, 14])
        per = [[] for _ in range(regions)]
        for k in range(ntr):
            per[r.randrange(regions)].append(k)
        for ri in range(regions):
            if ri:
                lines.append(self.ws() + '--')
            init = r.choice(states)
            lines.append(self.ws() + '[*]' + self.ws() + self.arrow() + self.ws() + init + self.ws())
            exp_i.append(init)
            body = []
            for _ in per[ri]:
                body.append(('t',) + self.transition_line(states, events, actions, guards, style))
            if r.random() < 0.35:
                t = r.choice(states)
                body.append(('x', self.ws() + t + self.ws() + self.arrow() + self.ws() + '[*]' + self.ws(), t))
            for _ in range(r.choice([0, 0, 1, 2])):
                s = r.choice(states)
                kind = r.choice(['flag', 'entry', 'exit'])
                if kind == 'flag':
                    body.append(('o', self.ws() + s + self.ws() + ':' + self.ws() + 'flag ' + r.choice(flags)))
                else:
                    acts = ','.join(r.choice(actions[:-1]) for _ in range(r.choice([1, 2])))
                    gtxt = (' [' + r.choice(guards) + ']') if r.random() < 0.3 else ''
                    body.append(('o', self.ws() + s + self.ws() + ':' + self.ws() + kind + ' ' + acts + gtxt))
            if r.random() < 0.2:
                body.append(('o', ''))
            r.shuffle(body)
            for b in body:
                lines.append(b[1])
                if b[0] == 't':
                    exp_t.append(b[2])
                elif b[0] == 'x':
                    exp_x += 1
        lines += ['%s}' % self.ws(), '%s@enduml' % self.ws(), '']
        text = '\n'.join(lines)
        return text, {'transitions': exp_t, 'inits': exp_i, 'terminates': exp_x,
                      'arrows': len(exp_t) + len(exp_i) + exp_x}

    def row(self):
        states = [self.ident() for _ in range(3)]
        line, exp = self.transition_line(states, [self.ident() for _ in range(2)], [self.ident() for _ in range(3)],
                                         [self.ident() for _ in range(3)], self.r.choice(['loose', 'tight']))
        return line, exp


def esc(s):
    return s.replace('\n', '\\n').replace('\t', '\\t')


def parse_fields(line):
    """'T0|src=<..>|tgt=<..>|...' -> (tag, dict with list for repeated keys)"""
    parts = line.split('|')
    tag = parts[0]
    d = {}
    for p in parts[1:]:
        if not p:
            continue
        k, v = p.split('=', 1)
        if v.startswith('<') and v.endswith('>'):
            v = v[1:-1].replace('\\n', '\n').replace('\\p', '|')
        if k == 'a':
            d.setdefault('a', []).append(v)
        else:
            d[k] = v
    return tag, d


def check_transition(d, exp):
    """compare one parsed transition with the intended fields; returns list of (field, expected, got)"""
    bad = []
    for k, key in (('src', 'src'), ('tgt', 'tgt'), ('ev', 'ev')):
        if d.get(key, '') != exp[k]:
            bad.append((k, exp[k], d.get(key, '')))
    if ' '.join(d.get('guard', '').split()) != ' '.join(exp['guard'].split()):
        bad.append(('guard', exp['guard'], d.get('guard', '')))
    got_actions = d.get('a', [])
    if int(d.get('na', 0)) != len(exp['actions']) or got_actions != exp['actions']:
        bad.append(('actions', exp['actions'], got_actions))
    return bad
