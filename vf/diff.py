"""Differential monitors (DESIGN.md 2.4): two executions of the real code on the same script must
produce the same normalised trace."""
from .model import parse_snap


def norm_ev(ev):
    if ev is None:
        return ev
    while ev.startswith('any/') or ev.startswith('W/'):
        ev = ev.split('/', 1)[1]
    return ev


def id_names(ix):
    """{machine: {id: state name}} for the family the index was built for"""
    return {m['name']: {i: n for n, i in m['_ids'].items()} for m in ix.order}


def normalize(recs, ix, strip_any_for=('NT', 'XC'), keep_reads=False, pending=False, names=False):
    """observable behaviour in the sense of C13: every guard, action, entry, exit, no_transition and
    exception_caught invocation with order and arguments, active ids after every operation, handled / zero
    status; harness-only records and family-specific presentation are removed (see DESIGN Appendix A)"""
    cg = {g['name'] for g in ix.gsites if g['cg_src'] is not None}
    idn = id_names(ix) if names else None
    out = []
    last_call = None
    for r in recs:
        k = r.k
        if k == 'CALL':
            last_call = r.extra[0]
        if k in ('G', 'A', 'EN', 'EX', 'NT', 'XC'):
            if k == 'G' and r.site in cg and r.v == 0:
                continue        # completion guards that do not hold: back re-evaluates them after every handled event
            ev = r.ev
            if k in strip_any_for or (k == 'EN' and r.site.split('.')[0] in ix.machines or r.site.startswith('.')):
                ev = norm_ev(ev)
            elif ev is not None and ev.startswith('W/'):
                ev = norm_ev(ev)
            v = r.v if k in ('G', 'NT') else 0
            if names and k == 'NT':
                v = idn.get(r.site, {}).get(r.v, r.v)      # state ids -> names (numbering is family specific)
            out.append((k, r.site, r.m, ev, r.id, r.ok, v))
        elif k == 'RET':
            x = r.extra[0]
            if x == '-':
                out.append(('RET', '-'))
            else:
                rc = int(x)
                out.append(('RET', bool(rc & 1), rc == 0))
        elif k == 'SNAP':
            levels, queues, extras = parse_snap(r)
            if names:
                lv = tuple(sorted((p, tuple(idn.get(p.split('/')[-1], {}).get(x, x) for x in v[0])) for p, v in levels.items()))
            else:
                lv = tuple(sorted((p, tuple(v[0])) for p, v in levels.items()))
            if last_call == 'stop':
                continue        # what introspection answers after stop() is outside every statement
            pend = tuple(sorted((p, q[0] + max(q[1], 0)) for p, q in queues.items()))
            out.append(('SNAP', r.extra[0], lv, pend if pending else ()))
        elif k in ('CALL', 'ESC', 'THROW', 'SUB', 'SUBRET', 'USE'):
            out.append((k,) + tuple(r.extra))
        elif k == 'STDERR' or k == 'EXITRC':
            out.append((k,))
    return out


def first_diff(a, b):
    n = min(len(a), len(b))
    for i in range(n):
        if a[i] != b[i]:
            return i
    if len(a) != len(b):
        return n
    return None
