"""Invariant monitors that need no behavioural model (DESIGN.md C03, C17):

* the entry/exit ledger rebuilt from the observed EN / EX records only,
* agreement of every introspection API with that ledger at each quiescent point,
* flags as a pure function of the ledger's active configuration.
"""
from .model import parse_snap


class LedgerReject(Exception):
    def __init__(self, tags, rule, expected, got, pos):
        Exception.__init__(self, '%s %s: expected %s, got %s at %d' % (sorted(tags), rule, expected, got, pos))
        self.tags = set(tags)
        self.rule = rule
        self.expected = expected
        self.got = got
        self.pos = pos


class Ledger:
    def __init__(self, spec, ix, cfg):
        self.spec = spec
        self.ix = ix
        self.cfg = cfg
        self.mp = cfg in ('mf', 'mp', 'mc')
        self.cov = {'C03': set(), 'C17': set()}
        self.flags = spec.get('flags', [])
        self.n_snaps = 0
        self.seen_active = set()
        self.seen_inactive = set()
        # site -> (machine name, state name) ; machine sites
        self.site_of_machine = {}
        for m in ix.order:
            par = ix.parent[m['name']]
            self.site_of_machine[m['name']] = ('%s.%s' % (par[0], m['name'])) if par else ('.%s' % m['name'])
        self.total_states = sum(len(m['states']) for m in ix.order)
        self.soft = None

    SOFT_RULES = ('is-state-active', 'visitor-', 'flag-or', 'flag-and')

    def rej(self, tags, rule, exp, got, pos):
        got = got if isinstance(got, str) else (got.raw if got is not None else 'END')
        if self.soft is not None and rule.startswith(self.SOFT_RULES):
            # the introspection answers of one snapshot are independent observations: judge all of them, so that
            # a wrong is_state_active answer (C03) does not hide a wrong flag answer (C17) in the same snapshot
            self.soft.append((set(tags), rule, exp, got, pos))
            return
        raise LedgerReject(tags, rule, exp, got, pos)

    def flush_soft(self):
        soft, self.soft = self.soft, None
        if soft:
            tags = set().union(*[x[0] for x in soft])
            first = soft[0]
            rule = first[1] if len(soft) == 1 else first[1] + ' (+%s)' % ','.join(sorted(set(x[1] for x in soft[1:])))
            e = LedgerReject(tags, rule, first[2], first[3], first[4])
            e.all = soft
            raise e

    def run(self, recs):
        inst = {}          # tag -> {site: active?}
        started = {}       # tag -> running between start() and stop()
        everstarted = {}
        cur_op = None
        for pos, r in enumerate(recs):
            if r.k == 'THROW' or r.k == 'ESC':
                return 'skipped-exception'
            if r.k == 'CALL':
                cur_op = r.extra[0]
                tag = r.extra[1] if len(r.extra) > 1 else 'A'
                if cur_op in ('copy', 'assign', 'move', 'moveassign', 'destroy'):
                    return 'skipped-copy'
                if cur_op == 'start':
                    started[tag] = True
                    everstarted[tag] = 'again' if everstarted.get(tag) else True
                    inst.setdefault(tag, {})
                    # a (re)started machine begins in its initial states: the entries that start() performs
                    # before anything else are the machine's own and those of its initial states, in order
                    root = self.spec['root']
                    exp = [self.site_of_machine[root['name']]]
                    for sn in root['regions']:
                        exp.append(self.site_of_machine[sn] if root['states'][sn]['kind'] == 'sub' else '%s.%s' % (root['name'], sn))
                    got = []
                    j = pos + 1
                    rn = root['name']
                    aborted = False
                    while j < len(recs) and recs[j].k != 'RET' and len(got) < len(exp):
                        x = recs[j]
                        if x.k in ('THROW', 'ESC', 'SIGNAL', 'STDERR'):
                            aborted = True
                            break
                        if x.k == 'EN' and (x.site.startswith(rn + '.') or x.site.startswith('.')):
                            got.append(x.site)
                        elif (x.k == 'EX' and x.site.startswith(rn + '.')) or (x.k in ('G', 'A') and x.site.startswith(rn + '#')) \
                                or (x.k == 'NT' and x.site == rn):
                            break           # the root's own rows run only after all its initial states are entered
                        # records of nested machines (their entries and their completion transitions, C10) interleave
                        j += 1
                    # '... a machine without history can be started again from its initial states': a root with a
                    # history policy is outside that clause (back restarts in the initial states, backmp11 restores);
                    # entry/exit alternation and introspection agreement are judged for it all the same
                    if not aborted and got != exp and not (root.get('history') and everstarted.get(tag) == 'again'):
                        self.rej({'C03'}, 'start-not-initial', exp, 'entered by start(): %s' % got, pos)
                    self.cov['C03'].add(('start', tuple(exp)))
                continue
            if r.k in ('EN', 'EX'):
                tag = r.m[0]
                led = inst.setdefault(tag, {})
                site = r.site
                act = led.get(site, False)
                if r.k == 'EN':
                    if act:
                        self.rej({'C03'}, 'entered-twice', 'exit before second entry of ' + site, r, pos)
                    # a substate is only entered while its machine is active
                    mname = site.split('.')[0]
                    if mname:
                        msite = self.site_of_machine[mname]
                        if not led.get(msite, False):
                            self.rej({'C03', 'C07'}, 'entered-in-inactive-machine', msite + ' active', r, pos)
                    led[site] = True
                else:
                    if not act:
                        self.rej({'C03'}, 'exit-without-entry', 'entry before exit of ' + site, r, pos)
                    # innermost first: a machine's own exit comes after the exit of all its substates
                    for mname, msite in self.site_of_machine.items():
                        if msite == site:
                            left = [s for s, a in led.items() if a and s.startswith(mname + '.')]
                            if left:
                                self.rej({'C03', 'C07'}, 'machine-exit-before-substates', 'substates exited first', r, pos)
                    led[site] = False
                continue
            if r.k == 'RET' and cur_op == 'stop':
                started_tag = [t for t in started if started[t]]
                continue
            if r.k == 'SNAP':
                tag = r.extra[0]
                led = inst.get(tag, {})
                if cur_op == 'stop':
                    started[tag] = False
                    left = [s for s, a in led.items() if a]
                    if left:
                        self.rej({'C03'}, 'stop-left-active', 'all states exited by stop()', 'still active: %s' % left, pos)
                    self.check_stopped_snapshot(r, pos)
                    continue
                if not started.get(tag):
                    continue
                self.check_snapshot(led, r, pos, cur_op)
        return 'ok'

    def had_submission(self, recs, pos):
        i = pos - 1
        while i >= 0 and recs[i].k != 'CALL':
            if recs[i].k == 'SUB':
                return True
            i -= 1
        return False

    # ------------------------------------------------------------------
    def active_config(self, led):
        """ledger -> {machine path: [active state per region]} for active levels; raises on integrity errors"""
        root = self.spec['root']
        out = {}

        def walk(m, path):
            regs = [[] for _ in m['regions']]
            for sn in m['states']:
                site = '%s.%s' % (m['name'], sn)
                if m['states'][sn]['kind'] == 'sub':
                    site = self.site_of_machine[sn]
                if led.get(site, False):
                    rg = self.ix.region_of(m, sn)
                    if rg is None:
                        raise LedgerReject({'C03'}, 'state-without-region', 'region of ' + sn, site, -1)
                    regs[rg].append(sn)
            out[path] = regs
            for sn in m['states']:
                if m['states'][sn]['kind'] == 'sub' and led.get(self.site_of_machine[sn], False):
                    walk(m['states'][sn]['machine'], path + '/' + sn)
        if led.get(self.site_of_machine[root['name']], False):
            walk(root, root['name'])
        return out

    def check_snapshot(self, led, r, pos, op):
        self.n_snaps += 1
        levels, queues, extras = parse_snap(r)
        try:
            cfg = self.active_config(led)
        except LedgerReject as e:
            e.pos = pos
            raise
        # exactly one active state per region of every active level
        for path, regs in cfg.items():
            for i, lst in enumerate(regs):
                if len(lst) != 1:
                    self.rej({'C03'}, 'region-not-exactly-one', 'one active state in region %d of %s' % (i, path),
                             'ledger has %s' % lst, pos)
        # current_state()/get_active_state_ids() at each active level, ids by the documented numbering
        exp_levels = {}
        for path, regs in cfg.items():
            m = self.ix.machines[path.split('/')[-1]]
            exp_levels[path] = [m['_ids'][lst[0]] for lst in regs]
        got_levels = {p: v[0] for p, v in levels.items()}
        if got_levels != exp_levels:
            self.rej({'C03'}, 'active-ids', exp_levels, 'snapshot %s' % got_levels, pos)
        flat = tuple(sorted((p, tuple(x[0] for x in regs)) for p, regs in cfg.items()))
        self.cov['C03'].add(('cfg', flat))
        for p, regs in cfg.items():
            for lst in regs:
                self.seen_active.add(p.split('/')[-1] + '.' + lst[0])
        self.soft = []
        try:
            self.check_introspection(cfg, levels, extras, pos)
        finally:
            if self.soft is not None and not self.soft:
                self.soft = None
        if self.soft is not None:
            self.flush_soft()

    def check_introspection(self, cfg, levels, extras, pos):
        # is_state_active<S> for every S (backmp11)
        if 'ACT' in extras:
            got = set(x for x in extras['ACT'].split(',') if x)
            exp = set()
            for path, regs in cfg.items():
                mn = path.split('/')[-1]
                for lst in regs:
                    exp.add('%s.%s' % (mn, lst[0]))
            if got != exp:
                self.rej({'C03'}, 'is-state-active', sorted(exp), 'ACT=%s' % sorted(got), pos)
            self.cov['C03'].add(('act', len(exp)))
        # visitors: pre-order over the active configuration
        if 'VIS' in extras:
            got = [x for x in extras['VIS'].split(',') if x]
            exp = []

            def pre(path):
                mn = path.split('/')[-1]
                m = self.ix.machines[mn]
                for lst in cfg[path]:
                    sn = lst[0]
                    if m['states'][sn]['kind'] == 'sub':
                        exp.append(self.site_of_machine[sn])
                        pre(path + '/' + sn)
                    else:
                        exp.append('%s.%s' % (mn, sn))
            pre(self.spec['root']['name'])
            if got != exp:
                self.rej({'C03'}, 'visitor-active-recursive', exp, 'VIS=%s' % got, pos)
            self.cov['C03'].add(('vis', tuple(exp)))
        if 'VISN' in extras:
            got = [x for x in extras['VISN'].split(',') if x]
            rootn = self.spec['root']['name']
            m = self.spec['root']
            exp = []
            for lst in cfg[rootn]:
                sn = lst[0]
                exp.append(self.site_of_machine[sn] if m['states'][sn]['kind'] == 'sub' else '%s.%s' % (rootn, sn))
            if got != exp:
                self.rej({'C03'}, 'visitor-active-non-recursive', exp, 'VISN=%s' % got, pos)
        if 'VISALL' in extras and int(extras['VISALL']) != self.total_states:
            self.rej({'C03'}, 'visitor-all-recursive', self.total_states, 'VISALL=%s' % extras['VISALL'], pos)
        if 'VISALLN' in extras and int(extras['VISALLN']) != len(self.spec['root']['states']):
            self.rej({'C03'}, 'visitor-all-non-recursive', len(self.spec['root']['states']), 'VISALLN=%s' % extras['VISALLN'], pos)
        # flags (C17): OR at every active level, AND where the level's active states are all simple
        if self.flags:
            for path, regs in cfg.items():
                mn = path.split('/')[-1]
                m = self.ix.machines[mn]
                got_or, got_and = levels[path][1], levels[path][2]
                exp_or = ''.join('1' if self.flag_or(cfg, path, f) else '0' for f in self.flags)
                if got_or != exp_or:
                    self.rej({'C17'}, 'flag-or', '%s OR=%s' % (path, exp_or), 'snapshot OR=%s' % got_or, pos)
                simple = all(m['states'][lst[0]]['kind'] != 'sub' for lst in regs)
                for k, f in enumerate(self.flags):
                    self.cov['C17'].add((path, tuple(x[0] for x in regs), f, 'or', exp_or[k]))
                if simple:
                    exp_and = ''.join('1' if all(f in self.state_flags(m, lst[0]) for lst in regs) else '0' for f in self.flags)
                    if got_and != exp_and:
                        self.rej({'C17'}, 'flag-and', '%s AND=%s' % (path, exp_and), 'snapshot AND=%s' % got_and, pos)
                    for k, f in enumerate(self.flags):
                        self.cov['C17'].add((path, tuple(x[0] for x in regs), f, 'and', exp_and[k]))

    def state_flags(self, m, sn):
        st = m['states'][sn]
        fl = list(st['flags'])
        return fl

    def flag_or(self, cfg, path, f):
        mn = path.split('/')[-1]
        m = self.ix.machines[mn]
        for lst in cfg[path]:
            sn = lst[0]
            if f in self.state_flags(m, sn):
                return True
            if m['states'][sn]['kind'] == 'sub' and self.flag_or(cfg, path + '/' + sn, f):
                return True
        return False

    def check_stopped_snapshot(self, r, pos):
        levels, queues, extras = parse_snap(r)
        if self.mp:
            for k in ('VIS', 'VISN', 'ACT'):
                if extras.get(k):
                    self.rej({'C03'}, 'introspection-after-stop', 'nothing active after stop()', '%s=%s' % (k, extras[k]), pos)
            self.cov['C03'].add(('stopped',))
