"""Per-property checks built on the model acceptor (C01 C02 C04-C12 C18) - see DESIGN.md 3.

A check for property P runs the profiles listed for P, feeds every observed trace to the
acceptor, and alarms only on rejections tagged P.  Rejections tagged only with other
properties make the run 'foreign-abandoned' for P (counted, never an alarm)."""
import json
import os
import random
import sys
import time

from . import build, engine, run, workload

# profile = (machines, workload kwargs, scripts per machine quick, thorough, cfg subset or None)
PLAIN = dict()
FX = dict(effects=0.4, enqueue=0.2)
FXL = dict(effects=0.25, enqueue=0.1)
FAIL = dict(effects=0.15, enqueue=0.1, fail=0.4)
LONG = dict(effects=0.2, enqueue=0.15, nops=120, stop=0.1)

PROFILES = {
    'C01': [(['m01', 'm02', 'm03', 'm05', 'm09', 'm10', 'm20'], PLAIN, 150, 1500, None),
            (['m02', 'm03'], FXL, 60, 600, None)],
    'C02': [(['m01', 'm02', 'm03', 'm04', 'm05', 'm06', 'm10', 'm17'], PLAIN, 120, 1200, None),
            (['m01', 'm03', 'm05'], FXL, 60, 600, None)],
    'C04': [(['m01', 'm02', 'm03', 'm06', 'm07', 'm11'], FX, 150, 1500, None),
            # submissions from exception_caught / no_transition: failpoints + effects attached to those callbacks
            (['m01', 'm02', 'm03', 'm06', 'm11', 'm17'], dict(effects=0.5, enqueue=0.1, fail=0.5, effect_kinds='CTGAN'), 100, 1000, None),
            (['m05', 'm08', 'm12', 'm13'], FX, 80, 800, None)],
    'C05': [(['m07', 'm11', 'm20'], FX, 250, 2500, None),
            (['m12'], FX, 250, 2500, None),
            (['m13'], FX, 250, 2500, None),
            (['m07'], LONG, 30, 300, None)],
    'C06': [(['m01', 'm02', 'm03', 'm08', 'm10', 'm11'], PLAIN, 150, 1500, None),
            # 'on the machine on which process_event was called': calls made on a nested machine (from its own behaviours)
            (['m01', 'm03', 'm10'], dict(effects=0.35, effect_api='p', effect_targets='s'), 80, 800, None)],
    'C07': [(['m01', 'm03', 'm05', 'm10'], PLAIN, 200, 2000, None),
            (['m01', 'm03'], FXL, 80, 800, None)],
    'C08': [(['m04', 'm05'], PLAIN, 300, 3000, None),
            (['m04'], FXL, 100, 1000, None)],
    'C09': [(['m05'], PLAIN, 400, 12000, None),
            (['m05'], FXL, 150, 5000, None)],
    'C10': [(['m06', 'm11', 'm17'], FX, 250, 2500, None),
            (['m06', 'm11', 'm17'], PLAIN, 100, 1000, None)],
    'C11': [(['m08'], FX, 300, 10000, None),
            (['m08'], dict(effects=0.2, enqueue=0.2, nops=80, stop=0.2), 60, 2000, None)],
    'C12': [(['m01', 'm02', 'm03', 'm05', 'm06', 'm07', 'm11', 'm17'], FAIL, 120, 1200, None),
            (['m04', 'm08', 'm10', 'm12', 'm13', 'm20'], FAIL, 60, 600, None),
            # 'the active state afterwards is the one the policy prescribes for the phase of the throw': the three
            # non-default active-state-switch policies (builds shared with C19)
            (['m01', 'm03', 'm10'], dict(effects=0.1, enqueue=0.05, fail=0.6), 100, 600, ['b', 'b11', 'mf'], 1),
            (['m01', 'm03', 'm10'], dict(effects=0.1, enqueue=0.05, fail=0.6), 100, 600, ['b', 'b11', 'mf'], 2),
            (['m01', 'm03', 'm10'], dict(effects=0.1, enqueue=0.05, fail=0.6), 100, 600, ['b', 'b11', 'mf'], 3)],
    'C18': [(['m09'], PLAIN, 400, 12000, None),
            (['m09'], FXL, 150, 5000, None)],
}

LEVELS = {'C12': 'fault_enumeration'}

RULES = {
    'C01': 'distinct (row site, consulted-guard valuation, number of candidates) with >= 2 candidates, plus level crossings',
    'C02': 'distinct (row site, source sub-configuration) of taken transitions',
    'C04': 'distinct (callback kind, api, target, depth, number pending) submission classes and queued-dispatch classes',
    'C05': 'distinct (deferring configuration, event type, pending shape) deferral / re-offer classes',
    'C06': 'distinct (machine, configuration, event, per-region outcome vector) with >= 2 regions, plus no_transition classes',
    'C07': 'distinct (depth, inner outcome bits, outer candidate present) forwarding classes',
    'C08': 'distinct (submachine, policy, entry kind, restored?, regions remembered != initial, regions named) entry classes',
    'C09': 'distinct (pseudo-state kind, submachine, targets / configuration) classes incl. exit rows skipped while the exit point is inactive',
    'C10': 'distinct (machine, source state, result bits, queued pending, deferred pending) completion evaluations',
    'C11': 'distinct (blocking kind, event type, source) swallowed-event classes',
    'C12': 'distinct (machine, depth, completion?) caught injected exceptions',
    'C18': 'distinct (machine, trigger kinds in candidate order, event dynamic type, winning trigger)',
}


GEN_PROPS = {'C01': PLAIN, 'C02': PLAIN, 'C04': FX, 'C05': FX, 'C06': PLAIN, 'C07': PLAIN, 'C08': PLAIN, 'C10': FX, 'C12': FAIL}


# the thorough tier's generated machines are a fixed, soaked set (the scripts vary with the seed, the machines do not):
# every new machine definition is a new program for the reference acceptor too, and an acceptor gap is an alarm
THOROUGH_GEN = ['gen:%d' % k for k in list(range(1020, 1032)) + list(range(1040, 1052))]


def gen_machines(tier, seed):
    """generated machine definitions (vf/gen_spec.py): two fixed ones in the quick tier, a fixed set of 24 more in thorough"""
    out = ['gen:101', 'gen:103']
    if tier == 'thorough':
        out += THOROUGH_GEN
    return out


def gen_profiles(prop, tier, seed):
    if prop not in GEN_PROPS:
        return []
    return [(gen_machines(tier, seed), GEN_PROPS[prop], 100, 600, None)]


def scripts_for(h, seed, n, kw):
    import zlib
    rng = random.Random((zlib.crc32(h.name.encode()) & 0xffff) * 1000003 + seed)
    g = workload.Gen(h.spec0, rng)
    out = []
    kw = dict(kw)
    fixed = kw.pop('nops', None)
    for _ in range(n):
        out.append(g.script(nops=fixed or rng.choice([8, 15, 25, 40]), **kw))
    return out


def run_model_check(prop, tier, seed, profiles=None, extra_filter=None):
    ev = engine.Evidence(prop, tier, seed, level=LEVELS.get(prop, 'exploration'))
    ev.rule = RULES.get(prop, '')
    ev.assumptions = [
        'machine definitions are sampled (curated corpus + seeded generated machines, vf/gen_spec.py), not enumerated',
        'the reference acceptor (vf/model.py) is the oracle for the synchronous semantics; pending-event order is monitored against the C04/C05/C10 rules only',
        'guard values, nested submissions and failpoints are scripted inputs',
    ]
    known = engine.load_known()
    profiles = list(profiles or PROFILES[prop]) + gen_profiles(prop, tier, seed)
    # build everything first
    hs = {}
    profiles = [tuple(p) + (0,) * (6 - len(p)) for p in profiles]      # optional 6th field: active-state-switch policy
    for machines, kw, nq, nt, cfgs, sw in profiles:
        for m in machines:
            key = (m, tuple(cfgs) if cfgs else None, sw)
            if key not in hs:
                hs[key] = engine.Harness(m, cfgs, switch=sw)
    errs = engine.build_harnesses(list(hs.values()))
    if errs:
        print('HARNESS build failure:\n' + '\n'.join(errs)[:4000])
        return 2
    violations = []
    known_hits = {}
    foreign = 0
    accepted = 0
    counts = {'records': 0, 'steps': 0, 'transitions': 0, 'ops': 0}
    per_machine = {}
    harness_problems = []
    for machines, kw, nq, nt, cfgs, sw in profiles:
        n = nq if tier == 'quick' else nt
        for m in machines:
            h = hs[(m, tuple(cfgs) if cfgs else None, sw)]
            scripts = scripts_for(h, seed, n, kw)
            res = run.run_matrix(h.bins, scripts)
            verdicts = engine.accept_all(h, res)
            for cfg in h.cfgs:
                for i, v in enumerate(verdicts[cfg]):
                    ev.evaluations += 1
                    for k in counts:
                        counts[k] += v['counts'].get(k, 0)
                    for key in v['cov'].get(prop, []):
                        ev.distinct.add((m, build.FAMNAME[cfg], json.dumps(key, default=str)))
                    per_machine.setdefault(m, [0, 0])[0] += 1
                    if v['ok']:
                        accepted += 1
                        if len(ev.samples) < 3 and i == 0:
                            ev.samples.append({'machine': m, 'cfg': cfg, 'script': scripts[i][:600],
                                               'observed_trace_head': engine.short_trace(res[cfg][i].recs, 0, 25)})
                        continue
                    per_machine[m][1] += 1
                    tags = set(v['tags'])
                    if 'HARNESS' in tags:
                        harness_problems.append((m, cfg, v['rule'], v['got'][:300], scripts[i][:300]))
                        continue
                    if 'CRASH' in tags:
                        tags = {prop}        # aborts / hangs count against every property that drives the workload
                    if prop not in tags:
                        foreign += 1
                        if os.environ.get('VF_DEBUG'):
                            print('FOREIGN', m, cfg, sorted(tags), v['rule'], v['expected'][:150], '| got', v['got'][:150])
                            print('   script:', scripts[i][:500])
                            print('   pending:', v.get('pending'))
                            print('   replay:', engine.write_replay('DBG', {
                                'property': prop, 'machine': m, 'cfg': cfg, 'switch': h.switch, 'script': scripts[i]}))
                        continue
                    sig = '%s|%s|%s' % (m, v['expected'][:120], v['got'][:120])
                    k = engine.match_known(known, prop, build.FAMNAME[cfg], v['rule'], sig)
                    if k:
                        known_hits[k['id']] = known_hits.get(k['id'], 0) + 1
                        continue
                    rp = engine.write_replay(prop, {
                        'property': prop, 'machine': m, 'cfg': cfg, 'switch': h.switch, 'script': scripts[i],
                        'rule': v['rule'], 'tags': sorted(v['tags']), 'expected': v['expected'], 'got': v['got'],
                        'pos': v['pos'], 'pending': v.get('pending'),
                        'window': engine.short_trace(res[cfg][i].recs, max(0, v['pos'] - 12), 20)})
                    violations.append((rp, m, cfg, v['rule'], v['expected'], v['got']))
    if prop == 'C05':
        harness_problems += long_pending_part(prop, tier, seed, known, known_hits, violations, ev)
    if prop == 'C12':
        mc = memcheck_part(prop, tier, seed, known, known_hits, violations, ev)
        if mc:
            harness_problems += mc
    ev.violations = len(violations)
    ev.extra.update({'accepted_runs': accepted, 'foreign_abandoned_runs': foreign,
                     'known_finding_hits': known_hits, 'trace_records_checked': counts['records'],
                     'dispatch_steps': counts['steps'], 'transitions_taken': counts['transitions'],
                     'top_level_operations': counts['ops'],
                     'machines': {m: {'runs': v[0], 'rejected': v[1]} for m, v in per_machine.items()}})
    ev.write()
    for kid, n in known_hits.items():
        k = [x for x in known['known'] if x['id'] == kid][0]
        print('KNOWN-FINDING: property=%s %s (%d runs)' % (prop, k['what'], n))
    if harness_problems:
        for hp in harness_problems[:5]:
            print('HARNESS problem: %s' % (hp,))
        return 2
    seen = set()
    for rp, m, cfg, rule, exp, got in violations:
        key = (m, build.FAMNAME[cfg], rule, exp[:60])
        if key in seen:
            continue
        seen.add(key)
        print('VIOLATION property=%s replay=%s' % (prop, rp))
        print('  machine=%s cfg=%s rule=%s expected=%s got=%s' % (m, cfg, rule, exp[:200], got[:200]))
        if len(seen) >= 12:
            break
    print('%s %s: %d runs, %d accepted, %d foreign-abandoned, %d violations, %d distinct non-trivial classes, %d records' % (
        prop, tier, ev.evaluations, accepted, foreign, len(violations), len(ev.distinct), counts['records']))
    if violations:
        return 1
    floor = 10 if tier == 'quick' else 20
    if len(ev.distinct) < floor or accepted == 0:
        print('INCONCLUSIVE: coverage floor not reached (%d < %d)' % (len(ev.distinct), floor))
        return 2
    return 0


MEMCHECK_SETS = {
    'quick': [('m06', ['mf', 'mc', 'b']), ('m11', ['mf', 'b11'])],
    'thorough': [('m06', None), ('m11', None), ('m03', None), ('m05', None), ('m07', None)],
}


def long_pending_part(prop, tier, seed, known, known_hits, violations, ev):
    """'the event stays pending however many other events are processed' and is re-offered when the deferring
    state is left: one occurrence is deferred, N handled events that do not change the configuration follow,
    then the deferring state is left.  N sweeps the wrap points of the back-ends' cycle counters (8 bit in
    back / back11, formerly 16 bit in backmp11: defect D19)."""
    def script(n, first):
        return ' '.join(['S', 'Mffffffffffffffff', 'P1:1'] + ['P3:%d' % (i + 2) for i in range(n)] + ['P0:%d' % (n + 5)])
    groups = [(['b', 'bc', 'bq', 'b11'], list(range(250, 262)) + list(range(506, 518)), 30)]
    if tier == 'quick':
        groups.append((['mf'], [65534], 300))
    else:
        groups.append((['mf', 'mp', 'mc'], [65533, 65534, 65535, 65536, 131070, 131071], 600))
    problems = []
    for cfgs, ns, alarm in groups:
        h = engine.Harness('m07d', cfgs)
        errs = engine.build_harnesses([h])
        if errs:
            return [('long-pending-build', e[:300]) for e in errs]
        scripts = [script(n, 1) for n in ns]
        res = run.run_matrix(h.bins, scripts, alarm=alarm)
        verdicts = engine.accept_all(h, res)
        for cfg in h.cfgs:
            for i, v in enumerate(verdicts[cfg]):
                ev.evaluations += 1
                if v['ok']:
                    ev.distinct.add(('long-pending', build.FAMNAME[cfg], ns[i]))
                    continue
                if 'HARNESS' in v['tags']:
                    problems.append(('long-pending', cfg, ns[i], v['rule'], v['got'][:200]))
                    continue
                sig = 'm07d|long-pending N=%d|%s' % (ns[i], v['expected'][:100])
                k = engine.match_known(known, prop, build.FAMNAME[cfg], v['rule'], sig)
                if k:
                    known_hits[k['id']] = known_hits.get(k['id'], 0) + 1
                    continue
                rp = engine.write_replay(prop, {'property': prop, 'machine': 'm07d', 'cfg': cfg, 'switch': 0,
                                                'script': 'GEN long-pending %d' % ns[i], 'rule': v['rule'], 'tags': sorted(v['tags']),
                                                'expected': v['expected'], 'got': v['got'], 'pos': v['pos'],
                                                'window': engine.short_trace(res[cfg][i].recs, max(0, v['pos'] - 12), 20)})
                violations.append((rp, 'm07d', cfg, v['rule'] + ' (N=%d intervening events)' % ns[i], v['expected'], v['got']))
    ev.extra['long_pending_runs'] = {'/'.join(c): n for c, n, _ in groups}
    return problems


def memcheck_part(prop, tier, seed, known, known_hits, violations, ev):
    """'the outcome does not depend on uninitialised data': the failpoint workload under valgrind memcheck"""
    from . import memcheck
    n = 10 if tier == 'quick' else 40
    hs = [engine.Harness(m, cfgs, mode='vg') for m, cfgs in MEMCHECK_SETS[tier]]
    errs = engine.build_harnesses(hs)
    if errs:
        return [('memcheck-build', e[:300]) for e in errs]
    jobs, meta = [], []
    for h in hs:
        scripts = scripts_for(h, seed + 99, n, dict(fail=0.5, effects=0.15, enqueue=0.1))
        for cfg in h.cfgs:
            for s in scripts:
                jobs.append((h.bins[cfg], s))
                meta.append((h.name, cfg, s))
    results = memcheck.run_many(jobs)
    clean = 0
    problems = []
    for (m, cfg, s), r in zip(meta, results):
        ev.evaluations += 1
        if r['status'] == 'clean':
            clean += 1
            import zlib; ev.distinct.add(('memcheck', m, cfg, zlib.crc32(s.encode()) % 5))
            continue
        if r['status'] == 'timeout':
            problems.append(('memcheck-timeout', m, cfg))
            continue
        sig = '%s|%s|%s' % (m, r.get('head', ''), r.get('where', ''))
        k = engine.match_known(known, prop, build.FAMNAME[cfg], 'memcheck', sig)
        if k:
            known_hits[k['id']] = known_hits.get(k['id'], 0) + 1
            continue
        rp = engine.write_replay(prop, {'kind': 'memcheck', 'property': prop, 'machine': m, 'cfg': cfg, 'script': s,
                                        'rule': 'memcheck', 'expected': 'no memcheck report',
                                        'got': r.get('head', ''), 'where': r.get('where', ''), 'report': r['report'][:3000]})
        violations.append((rp, m, cfg, 'memcheck', 'no valgrind memcheck report', '%s at %s' % (r.get('head'), r.get('where'))))
    ev.extra['memcheck_runs'] = len(jobs)
    ev.extra['memcheck_clean'] = clean
    return problems


def replay_memcheck(path):
    from . import memcheck
    d = json.load(open(path))
    h = engine.Harness(d['machine'], [d['cfg']], mode='vg')
    errs = engine.build_harnesses([h])
    if errs:
        print('\n'.join(errs))
        return 2
    r = memcheck.run_one(h.bins[d['cfg']], d['script'])
    print(r['status'], r.get('head', ''), r.get('where', ''))
    print(r.get('report', '')[:3000])
    if r['status'] == 'clean':
        print('ACCEPTED: no memcheck report on the current tree')
        return 0
    print('VIOLATION property=%s replay=%s' % (d['property'], path))
    return 1


def replay(path):
    d = json.load(open(path))
    if d['script'].startswith('GEN long-pending '):
        n = int(d['script'].split()[-1])
        d['script'] = ' '.join(['S', 'Mffffffffffffffff', 'P1:1'] + ['P3:%d' % (i + 2) for i in range(n)] + ['P0:%d' % (n + 5)])
    h = engine.Harness(d['machine'], [d['cfg']], switch=d.get('switch', 0))
    errs = engine.build_harnesses([h])
    if errs:
        print('\n'.join(errs))
        return 2
    res = run.run_matrix(h.bins, [d['script']])
    v = engine.accept_all(h, res, parallel=False)[d['cfg']][0]
    recs = res[d['cfg']][0].recs
    for i, r in enumerate(recs):
        mark = '>>' if (not v['ok'] and i == v['pos']) else '  '
        print(mark, r.raw[:220])
    if v['ok']:
        print('ACCEPTED: the recorded script is accepted on the current tree')
        return 0
    print('REJECTED tags=%s rule=%s expected=%s got=%s' % (v['tags'], v['rule'], v['expected'], v['got']))
    print('VIOLATION property=%s replay=%s' % (d['property'], path))
    return 1
