"""Machine specifications ("programs", DESIGN.md 2.1).

A spec is plain data.  Helper constructors keep corpus files short; `index()`
derives everything the generator, the reference model and the monitors share
(state ids by the documented numbering, row sites, guard atoms, ...).

spec = {'name', 'events': [names], 'bases': {ev: base_ev}, 'exit_events': [names with converting ctor],
        'flags': [names], 'root': machine}
machine = {'name', 'regions': [initial state names], 'states': {name: state}, 'table': [row],
           'internal': [row], 'history': None|'always'|[event names], 'parent': None}
state = {'kind': simple|sub|terminate|interrupt|entry_pt|exit_pt|explicit, 'machine': machine (sub),
         'flags': [], 'deferred': [], 'internal': [row], 'zone': int, 'event': name (exit_pt),
         'end_events': [names] (interrupt), 'defer_atom': int|None (backmp11 conditional deferral)}
row = {'src': name | ('exit', sub, xname), 'ev': name|None|'any', 'tgt': name|None|('direct', sub, [names])|('entry', sub, pname),
       'guard': None|int|('and',a,b)|('or',a,b)|('not',a), 'actions': [] | 'Defer'}
"""
import copy


def St(kind='simple', **kw):
    d = {'kind': kind, 'flags': [], 'deferred': [], 'internal': [], 'zone': -1,
         'event': None, 'end_events': [], 'machine': None, 'defer_atom': None}
    d.update(kw)
    return d


def Row(src, ev, tgt, guard=None, actions=None):
    if actions is None:
        actions = []
    return {'src': src, 'ev': ev, 'tgt': tgt, 'guard': guard, 'actions': actions}


def Machine(name, regions, states, table, internal=None, history=None):
    return {'name': name, 'regions': list(regions), 'states': states, 'table': table,
            'internal': internal or [], 'history': history}


def Sub(machine, **kw):
    return St('sub', machine=machine, **kw)


def guard_atoms(g):
    if g is None:
        return []
    if isinstance(g, int):
        return [g]
    if g[0] == 'not':
        return guard_atoms(g[1])
    return guard_atoms(g[1]) + guard_atoms(g[2])


class Index:
    """Derived, shared view of a spec."""

    def __init__(self, spec, family=None):
        self.spec = spec
        self.family = family      # 'back' / 'back11' / 'backmp11' (None: backmp11 order) - state numbering differs
        self.machines = {}       # name -> machine
        self.parent = {}         # machine name -> (parent machine name, state name) | None
        self.depth = {}
        self.order = []          # machines, inner first (definition order for C++)
        self.gsites = []         # guard atom occurrences: dict(name, atom, cg_src)
        self.asites = []         # action occurrences: names
        self.rows = {}           # row site -> row info
        self._walk(spec['root'], None, 0)
        for m in self.order:
            self._index_machine(m)

    def _walk(self, m, parent, depth):
        assert m['name'] not in self.machines, 'machine names must be unique: ' + m['name']
        self.machines[m['name']] = m
        self.parent[m['name']] = parent
        self.depth[m['name']] = depth
        for sname, s in m['states'].items():
            if s['kind'] == 'sub':
                assert s['machine']['name'] == sname, 'sub state name must equal machine name'
                self._walk(s['machine'], (m['name'], sname), depth + 1)
        self.order.append(m)

    # ---- state numbering.
    # back / back11 (doc/internals.adoc "Generated state ids"): the Start column top-down, then the implicitly
    # created states - transition-less initial states, explicit_creation - "added as a source at the end of the
    # transition table", then submachine states that are not sources yet, then the Next column top-down.
    # backmp11 (detail/metafunctions.hpp generate_state_set): sources, then targets, then remaining initial
    # states, then explicitly created states - the order the C03 statement spells out.
    def state_ids(self, m):
        ids = []

        def add(n):
            if n is not None and n not in ids:
                ids.append(n)
        for r in m['table']:
            add(self.row_src_state(r))
        if self.family in ('back', 'back11'):
            appear = set()
            for r in m['table']:
                appear.add(self.row_src_state(r))
                if r['tgt'] is not None:
                    appear.add(self.row_tgt_state(r))
            for n in m['regions']:
                if n not in appear:          # transition-less initial state: fake row appended to the table
                    add(n)
            for n in self.explicit_creation(m):
                add(n)
            for r in m['table']:
                add(self.row_tgt_state(r))
            for n in m['states']:
                add(n)
            return {n: i for i, n in enumerate(ids)}
        for r in m['table']:
            add(self.row_tgt_state(r))
        for n in m['regions']:
            add(n)
        for n in m['states']:
            add(n)
        return {n: i for i, n in enumerate(ids)}

    @staticmethod
    def row_src_state(r):
        s = r['src']
        if isinstance(s, tuple):      # ('exit', sub, x) -> the submachine state
            return s[1]
        return s

    @staticmethod
    def row_tgt_state(r):
        t = r['tgt']
        if t is None:
            return None
        if isinstance(t, tuple):      # direct / entry -> the submachine state
            return t[1]
        return t

    def explicit_creation(self, m):
        used = set()
        for r in m['table']:
            used.add(self.row_src_state(r))
            if r['tgt'] is not None:
                used.add(self.row_tgt_state(r))
        used.update(m['regions'])
        return [n for n in m['states'] if n not in used]

    def _index_machine(self, m):
        mn = m['name']
        m['_ids'] = self.state_ids(m)
        m['_names'] = {i: n for n, i in m['_ids'].items()}

        def do_row(r, site, owner_state):
            r['_site'] = site
            r['_machine'] = mn
            r['_owner'] = owner_state          # None: table row; state name: state-internal; '#sm': sm-internal
            r['_gsites'] = []
            is_completion = r['ev'] is None
            srcname = self.row_src_state(r) if owner_state is None else owner_state
            for k, a in enumerate(guard_atoms(r['guard'])):
                idx = len(self.gsites)
                cg = ('%s.%s' % (mn, srcname)) if is_completion else None
                self.gsites.append({'name': '%s.g%d_%d' % (site, k, a), 'atom': a, 'cg_src': cg, 'row': site})
                r['_gsites'].append(idx)
            r['_asites'] = []
            if r['actions'] != 'Defer':
                for k, a in enumerate(r['actions']):
                    idx = len(self.asites)
                    self.asites.append('%s.a%d_%s' % (site, k, a))
                    r['_asites'].append(idx)
            self.rows[site] = r
        for i, r in enumerate(m['table']):
            do_row(r, '%s#t%d' % (mn, i), None)
        for i, r in enumerate(m['internal']):
            do_row(r, '%s#i%d' % (mn, i), '#sm')
        for sn, s in m['states'].items():
            for i, r in enumerate(s['internal']):
                do_row(r, '%s.%s#i%d' % (mn, sn, i), sn)

    # ---- helpers used by model / monitors
    def region_of(self, m, sname):
        """Region index of a state: explicit zone, else reachability from the initial states."""
        if '_region' not in m:
            reg = {}
            for i, n in enumerate(m['regions']):
                reg[n] = i
            for sn, s in m['states'].items():
                if s['zone'] >= 0:
                    reg[sn] = s['zone']
            changed = True
            while changed:
                changed = False
                for r in m['table']:
                    if r['tgt'] is None:
                        continue
                    a, b = self.row_src_state(r), self.row_tgt_state(r)
                    if a in reg and b not in reg:
                        reg[b] = reg[a]
                        changed = True
                    if b in reg and a not in reg:
                        reg[a] = reg[b]
                        changed = True
            m['_region'] = reg
        return m['_region'].get(sname)

    def machine_path(self, mname):
        p = []
        cur = mname
        while cur is not None:
            p.append(cur)
            par = self.parent[cur]
            cur = par[0] if par else None
        return '/'.join(reversed(p))

    def ev_bases(self, ev):
        """ev and its public bases, nearest first."""
        out = [ev]
        b = self.spec.get('bases', {})
        while out[-1] in b:
            out.append(b[out[-1]])
        return out


def clone(spec):
    return copy.deepcopy(spec)


def spec_for_cfg(spec, cfg):
    """Configuration-specific view of a spec.  back11 does not compile a machine-level
    internal_transition_table whose events are processed (const-qualification error inside
    process_fsm_internal_table), so for b11 the sm-internal tables are dropped - in the generated
    source and in the reference model alike ("back11 where it accepts the same declarations")."""
    if cfg != 'b11':
        return spec
    sp = copy.deepcopy(spec)

    def strip(m):
        m['internal'] = []
        for s in m['states'].values():
            if s['kind'] == 'sub':
                strip(s['machine'])
    strip(sp['root'])
    for k in list(sp.keys()):
        pass
    return sp
