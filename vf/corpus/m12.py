"""M12 (backmp11 only): deferral at any nesting level, conditional is_event_deferred, orthogonal regions."""
from ..spec import St, Row, Machine, Sub

def spec():
    sub = Machine('Sub', ['U0', 'V0'], {
        'U0': St(deferred=['E2'], defer_atom=8),
        'U1': St(),
        'V0': St(deferred=['E2'], defer_atom=9), 'V1': St(deferred=['E3']),
    }, [
        Row('U0', 'E1', 'U1'),
        Row('U1', 'E1', 'U0'),
        Row('U1', 'E2', None, actions=['u2']),
        Row('V0', 'E4', 'V1'),
        Row('V1', 'E4', 'V0'),
        Row('V0', 'E3', None, guard=0, actions=['v3']),
    ])
    root = Machine('Root', ['A0'], {
        'A0': St(deferred=['E1']), 'Sub': Sub(sub), 'A1': St(),
    }, [
        Row('A0', 'E0', 'Sub', actions=['in']),
        Row('Sub', 'E0', 'A1'),
        Row('A1', 'E0', 'A0'),
        Row('A1', 'E2', None, actions=['a2']),
        Row('A1', 'E3', None, actions=['a3']),
        Row('A1', 'E1', None, actions=['a1']),
        Row('Sub', 'E5', None, guard=1, actions=['s5']),
    ])
    return {'name': 'M12', 'events': ['E0', 'E1', 'E2', 'E3', 'E4', 'E5'], 'flags': [], 'root': root,
            'configs': ['mf', 'mp', 'mc']}
