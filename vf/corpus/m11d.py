"""M11d: M11 without the guarded Defer-action row (see m07d)."""
from . import m11

def spec():
    sp = m11.spec()
    root = sp['root']
    root['table'] = [r for r in root['table'] if r['actions'] != 'Defer']
    root['states']['P3']['deferred'] = ['E3']
    sp['name'] = 'M11d'
    return sp
