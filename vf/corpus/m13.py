"""M13 (back / back11): events deferred inside submachines follow the history policy on exit."""
from ..spec import St, Row, Machine, Sub

def sub(name, p, history):
    return Machine(name, [p + '0'], {
        p + '0': St(deferred=['E2']), p + '1': St(), p + '2': St(),
    }, [
        Row(p + '0', 'E1', p + '1'),
        Row(p + '1', 'E1', p + '2'),
        Row(p + '2', 'E1', p + '0'),
        Row(p + '1', 'E2', None, actions=[p + 'h2']),
        Row(p + '2', 'E2', p + '0', actions=[p + 'h2b']),
        Row(p + '0', 'E3', None, guard=0, actions=[p + 'h3']),
    ], history=history)

def spec():
    root = Machine('Root', ['Idle'], {
        'Idle': St(),
        'SA': Sub(sub('SA', 'a', 'always')),
        'SS': Sub(sub('SS', 's', ['E0'])),
        'SN': Sub(sub('SN', 'n', None)),
    }, [
        Row('Idle', 'E0', 'SA'), Row('SA', 'E0', 'SS'), Row('SS', 'E0', 'SN'), Row('SN', 'E0', 'Idle'),
        Row('Idle', 'E4', 'SS'), Row('SA', 'E4', 'Idle'), Row('SS', 'E4', 'SA'), Row('SN', 'E4', 'SS'),
        Row('Idle', 'E2', None, actions=['i2']),
    ])
    return {'name': 'M13', 'events': ['E0', 'E1', 'E2', 'E3', 'E4'], 'flags': [], 'root': root,
            'configs': ['b', 'bc', 'bq', 'b11']}
