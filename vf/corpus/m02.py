"""M02: flat machine, conflicting rows, every row kind, state-internal and sm-internal tables, self transition."""
from ..spec import St, Row, Machine

def spec():
    root = Machine('Root', ['S0'], {
        'S0': St(internal=[Row('S0', 'E2', None, guard=4, actions=['si0']),
                           Row('S0', 'E2', None, guard=5, actions=['si1'])]),
        'S1': St(internal=[Row('S1', 'E0', None, actions=['si2'])]),
        # the forms of a state-local internal row: guard + action (S0), action only (S1), guard only (S2); a bare one
        # (no guard, no action) would consume events without any record and is left out
        'S2': St(internal=[Row('S2', 'E1', None, guard=8)]),
    }, [
        Row('S0', 'E0', 'S1', guard=0, actions=['r0']),          # row
        Row('S0', 'E0', 'S2', guard=1),                          # g_row
        Row('S0', 'E0', 'S0', guard=2, actions=['self']),        # self transition
        Row('S0', 'E1', 'S1', actions=['a']),                    # a_row
        Row('S0', 'E2', 'S2'),                                   # _row (after the internal table)
        Row('S1', 'E1', 'S2', guard=('and', 0, ('not', 1)), actions=['x1', 'x2']),
        Row('S1', 'E1', None, guard=('or', 2, 3), actions=['irow']),   # internal row in the table
        Row('S1', 'E2', 'S0'),
        Row('S2', 'E0', 'S0', guard=3),
        Row('S2', 'E1', 'S1'),
        Row('S2', 'E2', None, actions=['i2']),
        Row('S2', 'E0', None, guard=10),                         # guard-only internal row in the table (g_irow): wins over S2+E0->S0 when it holds
        Row('S1', 'E2', None, guard=11),                         # ... and one in front of an unguarded external row
    ], internal=[
        Row(None, 'E3', None, guard=6, actions=['smi0']),
        Row(None, 'E3', None, guard=7, actions=['smi1']),
        Row(None, 'E2', None, guard=6, actions=['smi2']),
        Row(None, 'E4', None, actions=['smi4']),                 # action-only machine-level internal row (a_internal of the fsm)
        Row(None, 'E4', None, guard=12),                         # guard-only one (g_internal of the fsm): declared later, tried first
    ])
    return {'name': 'M02', 'events': ['E0', 'E1', 'E2', 'E3', 'E4'], 'flags': [], 'root': root}
