"""M07: deferral at root level: deferred_events lists and guarded Defer-action rows, two deferred types."""
from ..spec import St, Row, Machine

def spec():
    root = Machine('Root', ['D0'], {
        'D0': St(deferred=['E1', 'E2']),
        'D1': St(deferred=['E2']),
        'D2': St(),
        'D3': St(),
    }, [
        Row('D0', 'E0', 'D1', actions=['d01']),
        Row('D1', 'E0', 'D2'),
        Row('D1', 'E1', 'D0', guard=0, actions=['h1a']),
        Row('D2', 'E1', 'D3', actions=['h1b']),
        Row('D2', 'E2', None, actions=['h2']),
        Row('D2', 'E0', 'D0'),
        Row('D3', 'E0', 'D0'),
        Row('D3', 'E1', None, actions=['h1c']),
        Row('D3', 'E2', 'D2', guard=1, actions=['h2b']),
        Row('D3', 'E3', None, guard=2, actions='Defer'),
        Row('D2', 'E3', None, actions=['h3']),
        Row('D0', 'E3', None, actions=['h3b']),
    ])
    return {'name': 'M07', 'events': ['E0', 'E1', 'E2', 'E3', 'E4'], 'flags': [], 'root': root}
