"""M09: exact / base-class (1-2 levels) / Kleene triggers competing in one state and across a submachine level."""
from ..spec import St, Row, Machine, Sub

def spec():
    sub = Machine('Sub', ['K0'], {
        'K0': St(), 'K1': St(),
    }, [
        Row('K0', 'E1', 'K1', guard=0, actions=['k_base']),       # base trigger
        Row('K0', 'E3', 'K1', guard=1, actions=['k_exact']),      # E3 : E2 : E1
        Row('K1', 'any', 'K0', guard=2, actions=['k_any']),
        Row('K1', 'E2', None, guard=3, actions=['k_mid']),
    ])
    root = Machine('Root', ['S0'], {
        'S0': St(), 'S1': St(), 'Sub': Sub(sub),
    }, [
        Row('S0', 'any', 'S1', guard=4, actions=['any1']),
        Row('S0', 'E1', 'S1', guard=5, actions=['base1']),
        Row('S0', 'E2', None, guard=6, actions=['mid']),
        Row('S0', 'E3', 'S1', guard=7, actions=['exact']),
        Row('S0', 'E0', 'Sub'),
        Row('S1', 'E0', 'S0'),
        Row('S1', 'E2', 'S0', guard=4),
        Row('S1', 'any', None, guard=5, actions=['any2']),
        Row('Sub', 'E4', 'S0'),
        Row('Sub', 'E2', 'S1', guard=8, actions=['sub_mid']),
    ])
    return {'name': 'M09', 'events': ['E0', 'E1', 'E2', 'E3', 'E4'], 'bases': {'E2': 'E1', 'E3': 'E2'},
            'flags': [], 'root': root, 'configs': ['b', 'bq', 'mf']}
