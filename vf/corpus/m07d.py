"""M07d: M07 without the guarded Defer-action row (deferral by deferred_events lists only) - used where
the re-offer moment of action-deferred events must not matter (C13)."""
from . import m07

def spec():
    sp = m07.spec()
    root = sp['root']
    root['table'] = [r for r in root['table'] if r['actions'] != 'Defer']
    root['states']['D3']['deferred'] = ['E3']
    sp['name'] = 'M07d'
    return sp
