"""M03: three-level nesting; every level has rows on the same events; sm-internal rows at inner levels."""
from ..spec import St, Row, Machine, Sub

def spec():
    low = Machine('Low', ['L0'], {
        'L0': St(internal=[Row('L0', 'E3', None, guard=8, actions=['l0i'])]), 'L1': St(),
    }, [
        Row('L0', 'E1', 'L1', guard=0, actions=['l01']),
        Row('L1', 'E1', 'L0', guard=1),
        Row('L1', 'E2', 'L0', guard=2),
        # E6 occurs in the innermost table only (not in Mid's): Root must still forward it two levels down
        Row('L0', 'E6', 'L1', guard=11, actions=['l6']),
        Row('L1', 'E6', None, guard=12, actions=['l6i']),
    ], internal=[
        Row(None, 'E4', None, guard=9, actions=['lowi']),
    ])
    mid = Machine('Mid', ['N0', 'Low'], {
        'N0': St(), 'N1': St(), 'Low': Sub(low), 'N2': St(),
    }, [
        Row('N0', 'E1', 'N1', guard=3, actions=['n01']),
        Row('N1', 'E1', 'N0', guard=3),
        Row('Low', 'E1', 'N2', guard=4, actions=['lowout']),
        Row('Low', 'E2', 'N2', guard=5),
        Row('N2', 'E2', 'Low', actions=['lowin']),
        Row('N2', 'E1', None, guard=6, actions=['n2i']),
    ], internal=[
        Row(None, 'E5', None, actions=['midi']),
        Row(None, 'E1', None, guard=10, actions=['midi1']),
    ])
    root = Machine('Root', ['R0'], {
        'R0': St(), 'Mid': Sub(mid), 'R1': St(),
    }, [
        Row('R0', 'E0', 'Mid', actions=['in']),
        Row('Mid', 'E1', 'R1', guard=7, actions=['out1']),
        Row('Mid', 'E2', 'R1', guard=7),
        Row('Mid', 'E0', 'R0'),
        Row('R1', 'E0', 'Mid'),
        Row('R1', 'E1', 'R0', guard=0),
        Row('Mid', 'E6', 'R1', guard=13, actions=['out6']),
    ])
    return {'name': 'M03', 'events': ['E0', 'E1', 'E2', 'E3', 'E4', 'E5', 'E6'], 'flags': [], 'root': root}
