"""M08: terminate and interrupt states in a three-region root, user flags on blocking states."""
from ..spec import St, Row, Machine

def spec():
    root = Machine('Root', ['A0', 'B0', 'C0'], {
        'A0': St(flags=['F0']), 'A1': St(),
        'B0': St(), 'Int': St('interrupt', end_events=['E4', 'E5'], flags=['F1']),
        'C0': St(), 'Term': St('terminate', flags=['F0', 'F1']), 'C1': St(flags=['F1']),
    }, [
        Row('A0', 'E0', 'A1', actions=['a01']),
        Row('A1', 'E0', 'A0', guard=0),
        Row('A1', 'E4', 'A0', actions=['a4']),
        Row('B0', 'E1', 'Int', actions=['toint']),
        Row('Int', 'E4', 'B0', actions=['endint']),
        Row('Int', 'E5', 'B0', guard=1),
        Row('B0', 'E5', None, actions=['b5']),
        Row('C0', 'E2', 'Term', guard=2, actions=['toterm']),
        Row('C0', 'E3', 'C1'),
        Row('C1', 'E3', 'C0'),
        Row('C1', 'E2', 'Term'),
        # both blocking kinds active at once: an end-interrupt event that terminates another region while the
        # interrupt state stays (its own row rejected), and one event that interrupts and terminates in one step
        Row('C0', 'E5', 'Term', guard=3, actions=['e5term']),
        Row('C1', 'E1', 'Term', actions=['e1term']),
    ])
    return {'name': 'M08', 'events': ['E0', 'E1', 'E2', 'E3', 'E4', 'E5'], 'flags': ['F0', 'F1'], 'root': root}
