"""M18: flat machine whose guards put the single parenthesised group at every position of an || / && expression
(first / later term, first / later factor) - the positions the PlantUML guard splitter treats differently (C14)."""
from ..spec import St, Row, Machine

A, O, N = 'and', 'or', 'not'

def spec():
    G = (O, 0, 1)                      # the group (a || b)
    root = Machine('Root', ['S0'], {'S0': St(), 'S1': St(), 'S2': St()}, [
        Row('S0', 'E0', 'S1', guard=(O, 3, (A, G, 2)), actions=['p']),                 # d || (a || b) && c
        Row('S0', 'E0', 'S2', guard=(O, (A, 3, G), 2), actions=['q']),                 # d && (a || b) || c
        Row('S0', 'E1', 'S1', guard=(A, (A, G, 2), 3)),                                # (a || b) && c && d
        Row('S0', 'E1', 'S2', guard=(A, (A, 2, G), 3), actions=['r']),                 # c && (a || b) && d
        Row('S1', 'E0', 'S0', guard=(O, (O, 3, (A, G, 2)), 4), actions=['s']),         # d || (a || b) && c || e
        Row('S1', 'E0', 'S2', guard=(O, (A, 2, 3), (A, G, 4))),                        # c && d || (a || b) && e
        Row('S1', 'E1', 'S0', guard=(O, 2, (A, 3, G)), actions=['t']),                 # c || d && (a || b)
        Row('S1', 'E1', 'S2', guard=(A, (N, 2), G)),                                   # !c && (a || b)
        Row('S2', 'E0', 'S0', guard=(A, (O, (A, 0, 1), 2), 3), actions=['u']),         # (a && b || c) && d
        Row('S2', 'E0', 'S1', guard=(O, (A, G, 2), 3)),                                # (a || b) && c || d
        Row('S2', 'E1', 'S0', guard=(O, (N, 3), (A, G, (N, 2))), actions=['v']),       # !d || (a || b) && !c
        Row('S2', 'E1', 'S1', guard=(O, (A, 2, (A, G, 3)), 4)),                        # c && (a || b) && d || e
        Row('S0', 'E2', 'S0', guard=(O, 4, (A, (O, (N, 0), 1), 2)), actions=['w']),    # e || (!a || b) && c
        Row('S1', 'E2', 'S2'),
        Row('S2', 'E2', 'S1', actions=['x']),
    ])
    return {'name': 'M18', 'events': ['E0', 'E1', 'E2', 'E3'], 'flags': [], 'root': root}
