"""M17: completion transitions in a higher region while the state entered in a lower region is a submachine -
at start() (root initial states), on (re-)entry of a submachine, with history and fork entry (C10; shape of the
seeded change seeded/C10-region-id)."""
from ..spec import St, Row, Machine, Sub

def spec():
    inner = Machine('Inner', ['J0'], {'J0': St(), 'J1': St()}, [
        Row('J0', 'E2', 'J1'), Row('J1', 'E2', 'J0'),
    ])
    sub = Machine('Sub', ['Inner', 'V0', 'W0'], {
        'Inner': Sub(inner), 'U1': St(),
        'V0': St(), 'V1': St(), 'V2': St('explicit', zone=1),
        'W0': St(), 'W1': St(),
    }, [
        Row('Inner', 'E3', 'U1'), Row('U1', 'E3', 'Inner'),
        Row('V0', None, 'V1', guard=20, actions=['v01']),
        Row('V1', None, 'V0', guard=21),
        Row('V1', 'E1', 'V0'),
        Row('V2', None, 'V1', actions=['v21']),
        Row('W0', None, 'W1', actions=['w01']),
        Row('W1', 'E1', 'W0'),
    ], history=['E4'])
    root = Machine('Root', ['Sub', 'Idle'], {
        'Sub': Sub(sub), 'A': St(),
        'Idle': St(), 'Warm': St(), 'Ready': St(),
    }, [
        Row('Sub', 'E0', 'A', actions=['out']), Row('A', 'E0', 'Sub', actions=['in']),
        Row('A', 'E4', 'Sub'),
        Row('A', 'E5', ('direct', 'Sub', ['V2'])),
        Row('Idle', None, 'Warm', actions=['i2w']),
        Row('Warm', None, 'Ready', guard=22, actions=['w2r']),
        Row('Ready', 'E1', 'Idle'),
        Row('Warm', 'E1', 'Idle', guard=0),
    ])
    return {'name': 'M17', 'events': ['E0', 'E1', 'E2', 'E3', 'E4', 'E5'], 'flags': [], 'root': root}
