"""M15: flat machine whose rows carry guard expressions over <= 4 atoms with every shape the front-ends support
(!, &&, ||, one level of parentheses, mixed precedence) and action sequences of 0-3 actions (C14)."""
from ..spec import St, Row, Machine

A, O, N = 'and', 'or', 'not'

def spec():
    root = Machine('Root', ['S0'], {'S0': St(), 'S1': St(), 'S2': St()}, [
        Row('S0', 'E0', 'S1', guard=(O, 0, (A, 1, 2)), actions=['p']),             # a || b && c
        Row('S0', 'E0', 'S2', guard=(O, (A, 0, 1), 2), actions=['q', 'r']),        # a && b || c
        Row('S0', 'E0', None, guard=(A, (N, 0), (N, 1)), actions=['s']),           # !a && !b
        Row('S0', 'E1', 'S1', guard=(A, 0, (O, 1, 2))),                            # a && (b || c)
        Row('S0', 'E1', 'S2', guard=(O, (N, 3), (A, 1, 2)), actions=['t', 'u', 'v']),  # !d || b && c
        Row('S1', 'E0', 'S0', guard=(A, (O, 0, 1), 3), actions=['w']),             # (a || b) && d
        Row('S1', 'E0', 'S2', guard=(O, (O, 0, 1), 2)),                            # a || b || c
        Row('S1', 'E1', 'S0', guard=(A, (A, 0, 1), (N, 2)), actions=['x', 'y']),   # a && b && !c
        Row('S1', 'E1', None, guard=(N, 3), actions=['z']),                         # !d
        Row('S2', 'E0', 'S0', guard=(O, (A, 0, (N, 1)), (A, (N, 0), 1))),          # a && !b || !a && b
        Row('S2', 'E1', 'S1', guard=(A, 2, (O, (N, 0), 3)), actions=['k']),        # c && (!a || d)
        Row('S2', 'E1', 'S0', guard=3),
        Row('S2', 'E2', 'S1', actions=['m', 'n', 'o']),
        Row('S0', 'E2', 'S0', guard=(O, 0, 3), actions=['self']),
        Row('S1', 'E2', 'S2'),
    ])
    return {'name': 'M15', 'events': ['E0', 'E1', 'E2', 'E3'], 'flags': [], 'root': root}
