"""M14 (C20): event zoo - sizes straddling backmp11's inline buffer, alignments 4..64, trivial / non-trivial /
throwing-move / nothrow-move / self-referential / destructor-only classes - held in message queues, deferred
queues and event pools of a root machine and of a submachine (pool reset on entry, deferred queue cleared on exit)."""
from ..spec import St, Row, Machine, Sub

ZOO = {
    # name: (pad size, alignment, trait)    traits: 0 trivial 1 non-trivial copy 2 throwing move 3 self-ref 4 dtor only 5 nothrow move
    'E1': (1, 4, 0), 'E2': (20, 8, 1), 'E3': (24, 8, 5), 'E4': (28, 8, 3), 'E5': (40, 8, 2),
    'E6': (8, 16, 1), 'E7': (100, 32, 3), 'E8': (200, 64, 0), 'E9': (500, 8, 4), 'E10': (21, 4, 4), 'E11': (33, 8, 0),
}
EVS = ['E%d' % i for i in range(1, 12)]

def spec():
    sub = Machine('Sub', ['H0'], {
        'H0': St(deferred=['E2', 'E4', 'E7']), 'H1': St(),
    }, [
        Row('H0', 'E1', 'H1'), Row('H1', 'E1', 'H0'),
    ] + [Row('H1', e, None, actions=['s' + e]) for e in ('E2', 'E4', 'E7', 'E9')])
    root = Machine('Root', ['Hold', 'Z0'], {
        'Hold': St(deferred=EVS[1:]), 'Run': St(), 'Sub': Sub(sub),
        'Z0': St(), 'Z1': St(),
    }, [
        Row('Hold', 'E0', 'Run'), Row('Run', 'E0', 'Sub', actions=['in']), Row('Sub', 'E0', 'Hold'),
        Row('Hold', 'E1', None, actions=['h1']),
        Row('Z0', 'E1', 'Z1', guard=0), Row('Z1', 'E1', 'Z0', guard=0),
    ] + [Row('Run', e, None, guard=(i % 3) + 1, actions=['r' + e]) for i, e in enumerate(EVS)]
      + [Row('Sub', e, None, actions=['o' + e]) for e in ('E3', 'E5', 'E8')])
    return {'name': 'M14', 'events': ['E0'] + EVS, 'flags': [], 'root': root, 'zoo': ZOO,
            'configs': ['b', 'bq', 'b11', 'mf', 'mc']}
