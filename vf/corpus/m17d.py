"""M17d: M17 with completion rows in one region per machine only (the W region of Sub reacts to E2 instead) -
used where the relative order of completion transitions of orthogonal regions must not matter (C13, KF4)."""
from . import m17
from ..spec import Row

def spec():
    sp = m17.spec()
    sub = sp['root']['states']['Sub']['machine']
    sub['table'] = [Row('W0', 'E2', 'W1', actions=['w01']) if (r['src'] == 'W0' and r['ev'] is None) else r for r in sub['table']]
    sp['name'] = 'M17d'
    return sp
