"""M06: completion transitions: chain at start, conflicts, inside a submachine, with guards fixed per entry."""
from ..spec import St, Row, Machine, Sub

def spec():
    sub = Machine('Sub', ['T0'], {
        'T0': St(), 'T1': St(), 'T2': St(), 'T3': St(),
    }, [
        Row('T0', None, 'T1', guard=10, actions=['t01']),
        Row('T1', None, 'T2', guard=11),
        Row('T1', None, 'T3', guard=12, actions=['t13']),
        Row('T2', 'E1', 'T0'),
        Row('T3', 'E1', 'T0'),
        Row('T0', 'E1', 'T2', actions=['e02']),
        Row('T1', 'E2', 'T0'),
        Row('T0', 'E2', 'T0', actions=['t0self']),      # external self-transition on a completion source: re-entry, ids unchanged
    ])
    root = Machine('Root', ['C0'], {
        'C0': St(), 'C1': St(), 'C2': St(), 'W': St(), 'Sub': Sub(sub),
    }, [
        Row('C0', None, 'C1', actions=['c01']),
        Row('C1', None, 'C2', guard=13, actions=['c12']),
        Row('C2', None, 'W', guard=14),
        Row('C1', 'E0', 'W'),
        Row('C2', 'E0', 'W'),
        Row('W', 'E0', 'Sub', actions=['in']),
        Row('W', 'E2', 'C0'),
        Row('Sub', 'E0', 'W'),
        Row('Sub', 'E3', 'C1', guard=0),
        Row('W', 'E3', None, actions=['w3']),
        Row('C1', 'E2', 'C1', actions=['c1self']),
        Row('C2', 'E2', 'C2', guard=1),
    ])
    return {'name': 'M06', 'events': ['E0', 'E1', 'E2', 'E3'], 'flags': [], 'root': root}
