"""M04: history policies: always / shallow[E0,E5] / none submachines with two regions, one root."""
from ..spec import St, Row, Machine, Sub

def sub(name, p, history):
    return Machine(name, [p + 'a0', p + 'b0'], {
        p + 'a0': St(), p + 'a1': St(), p + 'a2': St(), p + 'b0': St(), p + 'b1': St(),
    }, [
        Row(p + 'a0', 'E1', p + 'a1'),
        Row(p + 'a1', 'E1', p + 'a2', guard=0),
        Row(p + 'a2', 'E1', p + 'a0'),
        Row(p + 'b0', 'E2', p + 'b1', actions=['b']),
        Row(p + 'b1', 'E2', p + 'b0'),
    ], history=history)

def spec():
    root = Machine('Root', ['Idle'], {
        'Idle': St(),
        'HA': Sub(sub('HA', 'p', 'always')),
        'HS': Sub(sub('HS', 'q', ['E0', 'E5'])),
        'HN': Sub(sub('HN', 'r', None)),
    }, [
        Row('Idle', 'E0', 'HA'), Row('Idle', 'E3', 'HS'), Row('Idle', 'E4', 'HN'),
        Row('HA', 'E0', 'HS', actions=['as']), Row('HA', 'E3', 'Idle'), Row('HA', 'E5', 'HN'),
        Row('HS', 'E0', 'HN'), Row('HS', 'E3', 'HA'), Row('HS', 'E4', 'Idle'),
        Row('HN', 'E0', 'HS', guard=1), Row('HN', 'E4', 'Idle'), Row('HN', 'E5', 'HS'), Row('HN', 'E3', 'HA'),
        Row('Idle', 'E5', 'HS'),
    ])
    return {'name': 'M04', 'events': ['E0', 'E1', 'E2', 'E3', 'E4', 'E5'], 'flags': [], 'root': root}
