"""M21: three orthogonal regions of simple states at the root, each region toggling between a state that carries
a flag and one that does not, so that every combination (flag in regions 0 and 1 but not in 2, ...) is reachable:
the AND form of is_flag_active must look at *every* region (C17; shape of seeded change C17c)."""
from ..spec import St, Row, Machine, Sub

def spec():
    root = Machine('Root', ['A0', 'B0', 'C0'], {
        'A0': St(flags=['F1']), 'A1': St(flags=['F0', 'F2']),
        'B0': St(flags=['F2']), 'B1': St(flags=['F0', 'F1']),
        'C0': St(), 'C1': St(flags=['F0', 'F1', 'F2']),
    }, [
        Row('A0', 'E0', 'A1'), Row('A1', 'E0', 'A0', actions=['a10']),
        Row('B0', 'E1', 'B1'), Row('B1', 'E1', 'B0', guard=0),
        Row('C0', 'E2', 'C1', actions=['c01']), Row('C1', 'E2', 'C0'),
    ])
    return {'name': 'M21', 'events': ['E0', 'E1', 'E2'], 'flags': ['F0', 'F1', 'F2'], 'root': root}
