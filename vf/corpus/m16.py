"""M16: flat machine with the PlantUML-expressible extras: Kleene event, anonymous transition, defer action,
internal transitions (C14 PlantUML behavioural variant)."""
from ..spec import St, Row, Machine

def spec():
    root = Machine('Root', ['Empty'], {'Empty': St(), 'Open': St(), 'Stopped': St(), 'Playing': St(), 'Pre': St()}, [
        Row('Empty', 'E0', 'Open', actions=['open']),
        Row('Open', 'E0', 'Empty', guard=0, actions=['close']),
        Row('Open', 'E1', None, guard=1, actions='Defer'),
        Row('Empty', 'E2', 'Pre', actions=['store'], guard=('and', 2, 3)),
        Row('Pre', None, 'Stopped', guard=10),
        Row('Pre', None, 'Empty', guard=11, actions=['back']),
        Row('Stopped', 'E1', 'Playing', actions=['start']),
        Row('Playing', 'E3', 'Stopped', actions=['stop1', 'stop2']),
        Row('Playing', 'E0', 'Open', actions=['stop1', 'open']),
        Row('Stopped', 'E3', None, actions=['still']),
        Row('Stopped', 'any', 'Empty', guard=4, actions=['anyev']),
        Row('Empty', 'E1', None, guard=('or', 5, ('not', 0)), actions=['int1']),
        Row('Pre', 'E3', 'Empty'),
    ])
    return {'name': 'M16', 'events': ['E0', 'E1', 'E2', 'E3'], 'flags': [], 'root': root, 'configs': ['b', 'mf']}
