"""M10: flags on simple states, on a submachine state and on its substates; two regions at the root."""
from ..spec import St, Row, Machine, Sub

def spec():
    sub = Machine('Sub', ['U0', 'V0'], {
        'U0': St(flags=['F1']), 'U1': St(flags=['F2']), 'V0': St(), 'V1': St(flags=['F1', 'F2']),
    }, [
        Row('U0', 'E1', 'U1'), Row('U1', 'E1', 'U0'),
        Row('V0', 'E2', 'V1'), Row('V1', 'E2', 'V0'),
    ])
    root = Machine('Root', ['P0', 'Q0'], {
        'P0': St(flags=['F0']), 'Sub': Sub(sub, flags=['F3']), 'P1': St(flags=['F0', 'F1']),
        'Q0': St(flags=['F0']), 'Q1': St(flags=['F2']),
    }, [
        Row('P0', 'E0', 'Sub'), Row('Sub', 'E0', 'P1'), Row('P1', 'E0', 'P0'),
        Row('Q0', 'E3', 'Q1'), Row('Q1', 'E3', 'Q0'),
        Row('Sub', 'E3', None, guard=0, actions=['s3']),
    ])
    return {'name': 'M10', 'events': ['E0', 'E1', 'E2', 'E3'], 'flags': ['F0', 'F1', 'F2', 'F3'], 'root': root}
