"""M20: a guarded Defer-action row competing with ordinary rows of the same (state, event): the row that wins by
table position decides alone - once it defers, no lower-priority candidate is evaluated (C01 / C05; shape of seeded
change C18b).  One region; also a two-region variant of the conflict inside a submachine with an outer row."""
from ..spec import St, Row, Machine, Sub

def spec():
    sub = Machine('Sub', ['U0', 'V0'], {'U0': St(), 'U1': St(), 'V0': St(), 'V1': St()}, [
        Row('U0', 'E1', 'U1', guard=4, actions=['u01']),
        Row('U0', 'E1', None, guard=5, actions='Defer'),
        Row('U1', 'E1', 'U0', actions=['u10']),
        Row('V0', 'E2', 'V1'), Row('V1', 'E2', 'V0'),
    ])
    root = Machine('Root', ['A'], {'A': St(), 'B': St(), 'C': St(), 'Sub': Sub(sub)}, [
        Row('A', 'E1', 'B', guard=0, actions=['a1b']),
        Row('A', 'E1', None, guard=3, actions=['a1i']),
        Row('A', 'E1', None, guard=1, actions='Defer'),
        Row('A', 'E0', 'B'),
        Row('B', 'E1', 'C', actions=['b1c']),
        Row('B', 'E0', 'A'),
        Row('C', 'E0', 'Sub'),
        Row('C', 'E1', None, guard=2, actions=['c1']),
        Row('Sub', 'E0', 'A'),
        Row('Sub', 'E1', 'B', guard=6, actions=['s1b']),     # outer candidate behind the submachine's own Defer row
    ])
    return {'name': 'M20', 'events': ['E0', 'E1', 'E2', 'E3'], 'flags': [], 'root': root}
