"""M19: the *outermost* machine itself carries a history policy (always) and is stopped and started again:
start() begins in the initial states whatever stop() recorded (C03; shape of seeded change C03b)."""
from ..spec import St, Row, Machine, Sub

def spec():
    sub = Machine('Sub', ['U0'], {'U0': St(), 'U1': St()}, [
        Row('U0', 'E2', 'U1'), Row('U1', 'E2', 'U0'),
    ], history='always')
    root = Machine('Root', ['A0', 'B0'], {
        'A0': St(), 'A1': St(), 'Sub': Sub(sub),
        'B0': St(), 'B1': St(),
    }, [
        Row('A0', 'E0', 'A1', actions=['a01']),
        Row('A1', 'E0', 'Sub', guard=0),
        Row('Sub', 'E0', 'A0'),
        Row('A1', 'E3', 'A0'),
        Row('B0', 'E1', 'B1', actions=['b01']),
        Row('B1', 'E1', 'B0', guard=1),
    ], history='always')
    return {'name': 'M19', 'events': ['E0', 'E1', 'E2', 'E3'], 'flags': [], 'root': root}
