"""M11: completion transitions meeting pending deferred and queued events (root level), two regions."""
from ..spec import St, Row, Machine

def spec():
    root = Machine('Root', ['P0', 'Q0'], {
        'P0': St(deferred=['E2']),
        'P1': St(),
        'P2': St(),
        'P3': St(),
        'Q0': St(), 'Q1': St(),
    }, [
        Row('P0', 'E0', 'P1', actions=['p01']),
        Row('P1', None, 'P2', guard=20, actions=['c12']),
        Row('P1', None, 'P3', guard=21, actions=['c13']),
        Row('P2', None, 'P3', guard=22),
        Row('P1', 'E2', None, actions=['h2a']),
        Row('P2', 'E2', None, actions=['h2b']),
        Row('P3', 'E2', 'P0', actions=['h2c']),
        Row('P1', 'E1', 'P0'),
        Row('P2', 'E1', 'P0'),
        Row('P3', 'E1', 'P0'),
        Row('P3', 'E3', None, guard=0, actions='Defer'),
        Row('P0', 'E3', None, actions=['h3']),
        Row('Q0', 'E4', 'Q1', actions=['q01']),
        Row('Q1', 'E4', 'Q0'),
        # the event that leaves the deferring state is also offered to the sibling region, where a guard may
        # reject it: combined result TRUE|GUARD_REJECT of the step that must re-offer the deferred events
        Row('Q0', 'E0', 'Q1', guard=1, actions=['q0e0']),
        Row('Q1', 'E0', None, guard=2, actions=['q1e0']),
        Row('Q1', 'E1', 'Q0', guard=3),
    ])
    return {'name': 'M11', 'events': ['E0', 'E1', 'E2', 'E3', 'E4'], 'flags': [], 'root': root}
