"""M05: explicit entry and fork (1-2 of 3 regions) into a submachine with shallow history;
entry point and exit point on a second submachine; the exit-point event is also sent from outside."""
from ..spec import St, Row, Machine, Sub

def spec():
    sub = Machine('Sub', ['A0', 'B0', 'C0'], {
        'A0': St(), 'A1': St('explicit', zone=0), 'A2': St(),
        'B0': St(), 'B1': St('explicit', zone=1),
        'C0': St(), 'C1': St('explicit', zone=2),
    }, [
        Row('A0', 'E1', 'A2'),
        Row('A2', 'E1', 'A0'),
        Row('A1', 'E1', 'A2', actions=['a12']),
        Row('B0', 'E2', 'B1'),
        Row('B1', 'E2', 'B0'),
        Row('C0', 'E2', 'C1', guard=0),
        Row('C1', 'E2', 'C0', guard=0),
    ], history=['E3', 'E7'])
    pt = Machine('Pt', ['Q0', 'R0'], {
        'Q0': St(), 'Q1': St(), 'R0': St(), 'R1': St(),
        'P': St('entry_pt', zone=0),
        'X': St('exit_pt', event='E6'),
        'Y': St('exit_pt', event='E8'),      # a second exit point, in the other region (seeded change C09-any-exit-point)
    }, [
        Row('P', 'E4', 'Q1', actions=['pq']),
        Row('Q0', 'E1', 'Q1'),
        Row('Q1', 'E1', 'Q0'),
        Row('Q1', 'E5', 'X', guard=1, actions=['tox']),
        Row('R0', 'E2', 'R1'),
        Row('R1', 'E2', 'R0'),
        Row('R1', 'E5', None, guard=4, actions=['r5']),
        Row('R0', 'E5', 'Y', guard=6, actions=['toy']),
    ])
    root = Machine('Root', ['Out'], {
        'Out': St(), 'Sub': Sub(sub), 'Pt': Sub(pt), 'Done': St(),
    }, [
        Row('Out', 'E0', 'Sub'),
        Row('Out', 'E7', 'Sub'),
        Row('Out', 'E1', ('direct', 'Sub', ['A1'])),
        Row('Out', 'E2', ('direct', 'Sub', ['A1', 'C1']), actions=['fork']),
        Row('Out', 'E3', ('direct', 'Sub', ['B1'])),
        Row('Sub', 'E0', 'Out'),
        Row('Sub', 'E4', 'Pt', guard=5),
        Row('Out', 'E4', ('entry', 'Pt', 'P')),
        Row('Out', 'E5', 'Pt'),
        Row('Pt', 'E0', 'Out'),
        Row('Pt', 'E7', ('direct', 'Sub', ['A1', 'B1', 'C1'])),
        Row(('exit', 'Pt', 'X'), 'E6', 'Done', guard=2, actions=['left']),
        Row(('exit', 'Pt', 'Y'), 'E8', 'Out', actions=['lefty']),       # guard-less row leaving an exit point
        Row('Done', 'E0', 'Out'),
        Row('Done', 'E6', None, actions=['d6']),
        Row('Out', 'E6', None, guard=3, actions=['o6']),
    ])
    return {'name': 'M05', 'events': ['E0', 'E1', 'E2', 'E3', 'E4', 'E5', 'E6', 'E7', 'E8'], 'exit_events': ['E6', 'E8'],
            'flags': [], 'root': root}
