"""M01: two-region submachine with conflicting inner rows and an outer row on the same event (D1 shape)."""
from ..spec import St, Row, Machine, Sub

def spec():
    sub = Machine('Sub', ['X0', 'Y0'], {
        'X0': St(), 'X1': St(), 'Y0': St(), 'Y1': St(),
    }, [
        Row('X0', 'E1', 'X1', guard=0, actions=['x']),
        Row('X1', 'E1', 'X0', guard=0),
        Row('Y0', 'E1', 'Y1', guard=1, actions=['y']),
        Row('Y1', 'E1', 'Y0', guard=1),
        Row('X0', 'E3', 'X1'),
    ])
    root = Machine('Root', ['A0'], {
        'A0': St(), 'Sub': Sub(sub), 'A1': St(),
    }, [
        Row('A0', 'E0', 'Sub', actions=['in']),
        Row('Sub', 'E1', 'A1', guard=2, actions=['out']),
        Row('Sub', 'E2', 'A0'),
        Row('A1', 'E0', 'A0'),
        Row('A1', 'E1', None, guard=3, actions=['int']),
    ])
    return {'name': 'M01', 'events': ['E0', 'E1', 'E2', 'E3'], 'flags': [], 'root': root}
